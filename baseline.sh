#!/bin/bash
# Runs the repository's pinned baseline (guard OFF) and compares with BASELINE.json stable_pass.
export GOFLAGS=-mod=mod GOPROXY=off GOSUMDB=off GOTOOLCHAIN=local
REPO="${1:-/repo}"
cd "$REPO" && go test -mod=mod -json -vet=off -count=1 -timeout 25m ./... 2>&1 | python3 -c '
import sys,json
want=set(json.load(open("/root/.vp/BASELINE.json"))["stable_pass"])
ok=set(); bad=set()
for l in sys.stdin:
    try: d=json.loads(l)
    except Exception: continue
    if d.get("Test") and d.get("Action") in ("pass","fail"):
        (ok if d["Action"]=="pass" else bad).add(d["Package"]+"::"+d["Test"])
missing=sorted(want-ok)
print("baseline: %d/%d stable tests pass; other failing tests: %s"%(len(want&ok),len(want),sorted(bad-want)))
for m in missing: print("MISSING/FAILED:",m)
sys.exit(1 if missing else 0)'
