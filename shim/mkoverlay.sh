#!/bin/bash
# mkoverlay.sh <repo> <outdir>: writes <outdir>/overlay.json for `go build -overlay`.
# Everything is derived from the CURRENT files of <repo> at the time of the call.
set -eu
REPO="$1"; OUT="$2"
SHIM="$(cd "$(dirname "${BASH_SOURCE[0]}")" && pwd)"
mkdir -p "$OUT"
python3 "$SHIM/mkoverlay.py" "$REPO" "$OUT" "$SHIM"
