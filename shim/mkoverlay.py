#!/usr/bin/env python3
"""Generates the go build overlay from the current repository tree.
 - adds test-only export files to packages (unexported state the harness must read)
 - (later) rewrites "sync"/"time"/"context" imports of selected files to virtual packages
"""
import json, os, re, sys
repo, out, shim = sys.argv[1], sys.argv[2], sys.argv[3]
replace = {}

def add_file(rel, src):
    """add (or replace) repo file `rel` with the file at path src"""
    replace[os.path.join(repo, rel)] = src

# 1. export files (sources under shim/export/<pkgdir>/<name>.go)
exp = os.path.join(shim, "export")
if os.path.isdir(exp):
    for root, _, files in os.walk(exp):
        for f in files:
            if f.endswith(".go"):
                rel = os.path.relpath(os.path.join(root, f), exp)
                add_file(rel, os.path.join(root, f))

# 2. virtual packages (sources under shim/zverif/<pkg>/*.go) -> <repo>/zverif/<pkg>/
zv = os.path.join(shim, "zverif")
if os.path.isdir(zv):
    for root, _, files in os.walk(zv):
        for f in files:
            if f.endswith(".go"):
                rel = os.path.relpath(os.path.join(root, f), shim)
                add_file(rel, os.path.join(root, f))

# 3. import rewrites: every non-test .go file of the repo importing "sync" / "time" / "context"
#    (only when the virtual package exists)
rewrites = {}
if os.path.isdir(os.path.join(zv, "vsync")):
    rewrites['"sync"'] = 'sync "github.com/jig/lisp/zverif/vsync"'
if os.path.isdir(os.path.join(zv, "vatomic")):
    rewrites['"sync/atomic"'] = 'atomic "github.com/jig/lisp/zverif/vatomic"'
if os.path.isdir(os.path.join(zv, "vtime")):
    rewrites['"time"'] = 'time "github.com/jig/lisp/zverif/vtime"'
if os.path.isdir(os.path.join(zv, "vcontext")):
    rewrites['"context"'] = 'context "github.com/jig/lisp/zverif/vcontext"'
skip_dirs = {".git", "debugger", "repl", "cmd", "command", "examples", "example", "zverif", "verifhook"}
if rewrites:
    for root, dirs, files in os.walk(repo):
        dirs[:] = [d for d in dirs if d not in skip_dirs]
        for f in files:
            if not f.endswith(".go") or f.endswith("_test.go"):
                continue
            path = os.path.join(root, f)
            if path in replace:
                continue
            src = open(path, encoding="utf-8").read()
            m = re.search(r'import\s*\((.*?)\)', src, re.S)
            if not m:
                continue
            block = m.group(1)
            new_block = block
            for old, new in rewrites.items():
                if old == '"sync"' and os.sep + os.path.join("lib", "concurrent") + os.sep in path:
                    # atoms and futures get their own lock class (visible independently of env locks)
                    new = 'sync "github.com/jig/lisp/zverif/vsynca"'
                # only plain (un-aliased) imports on their own line
                new_block = re.sub(r'(?m)^(\s*)' + re.escape(old) + r'\s*$', r'\1' + new, new_block)
            if new_block != block:
                new_src = src[:m.start(1)] + new_block + src[m.end(1):]
                rel = os.path.relpath(path, repo).replace(os.sep, "__")
                dst = os.path.join(out, rel)
                open(dst, "w", encoding="utf-8").write(new_src)
                replace[path] = dst
json.dump({"Replace": replace}, open(os.path.join(out, "overlay.json"), "w"), indent=1)
