package lisp

// Test-only access to the unexported stepping flags (C18).
func VerifStepFlags() (bool, bool, bool) { return skip, outing1, outing2 }
func VerifResetStepFlags()               { skip, outing1, outing2 = false, false, false }
