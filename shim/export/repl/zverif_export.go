package repl

// VerifMultiLine exposes the REPL's own incomplete-input classifier to the harness (C16).
func VerifMultiLine(err error) bool { return multiLine(err) }
