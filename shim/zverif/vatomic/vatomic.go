// Package vatomic stands in for "sync/atomic" in files of jig/lisp (import rewritten by the build
// overlay, shim/mkoverlay.py): every operation is the real one, preceded by a scheduling point of the
// controlled scheduler (class hook), so that code which publishes or claims shared state with atomics
// is interleaved at those operations too. Without an active scheduler (free-running race pass, plain
// runs) the point is a no-op. The pinned tree does not import sync/atomic; the package exists for changed trees.
package vatomic

import (
	"sync/atomic"
	"unsafe"

	"github.com/jig/lisp/zverif/vcore"
)

func point() {
	if s := vcore.Active(); s != nil {
		s.Point("atomic")
	}
}

type Value struct{ v atomic.Value }

func (x *Value) Load() any                    { point(); return x.v.Load() }
func (x *Value) Store(val any)                { point(); x.v.Store(val) }
func (x *Value) Swap(n any) any               { point(); return x.v.Swap(n) }
func (x *Value) CompareAndSwap(o, n any) bool { point(); return x.v.CompareAndSwap(o, n) }

type Bool struct{ v atomic.Bool }

func (x *Bool) Load() bool                    { point(); return x.v.Load() }
func (x *Bool) Store(val bool)                { point(); x.v.Store(val) }
func (x *Bool) Swap(n bool) bool              { point(); return x.v.Swap(n) }
func (x *Bool) CompareAndSwap(o, n bool) bool { point(); return x.v.CompareAndSwap(o, n) }

type Pointer[T any] struct{ v atomic.Pointer[T] }

func (x *Pointer[T]) Load() *T                    { point(); return x.v.Load() }
func (x *Pointer[T]) Store(val *T)                { point(); x.v.Store(val) }
func (x *Pointer[T]) Swap(n *T) *T                { point(); return x.v.Swap(n) }
func (x *Pointer[T]) CompareAndSwap(o, n *T) bool { point(); return x.v.CompareAndSwap(o, n) }

func LoadPointer(addr *unsafe.Pointer) unsafe.Pointer     { point(); return atomic.LoadPointer(addr) }
func StorePointer(addr *unsafe.Pointer, v unsafe.Pointer) { point(); atomic.StorePointer(addr, v) }
func SwapPointer(addr *unsafe.Pointer, n unsafe.Pointer) unsafe.Pointer {
	point()
	return atomic.SwapPointer(addr, n)
}
func CompareAndSwapPointer(addr *unsafe.Pointer, o, n unsafe.Pointer) bool {
	point()
	return atomic.CompareAndSwapPointer(addr, o, n)
}

type Int32 struct{ v atomic.Int32 }

func (x *Int32) Load() int32                    { point(); return x.v.Load() }
func (x *Int32) Store(val int32)                { point(); x.v.Store(val) }
func (x *Int32) Swap(n int32) int32             { point(); return x.v.Swap(n) }
func (x *Int32) CompareAndSwap(o, n int32) bool { point(); return x.v.CompareAndSwap(o, n) }
func (x *Int32) Add(d int32) int32              { point(); return x.v.Add(d) }
func (x *Int32) And(m int32) int32              { point(); return x.v.And(m) }
func (x *Int32) Or(m int32) int32               { point(); return x.v.Or(m) }

func LoadInt32(addr *int32) int32          { point(); return atomic.LoadInt32(addr) }
func StoreInt32(addr *int32, v int32)      { point(); atomic.StoreInt32(addr, v) }
func SwapInt32(addr *int32, n int32) int32 { point(); return atomic.SwapInt32(addr, n) }
func CompareAndSwapInt32(addr *int32, o, n int32) bool {
	point()
	return atomic.CompareAndSwapInt32(addr, o, n)
}
func AddInt32(addr *int32, d int32) int32 { point(); return atomic.AddInt32(addr, d) }
func AndInt32(addr *int32, m int32) int32 { point(); return atomic.AndInt32(addr, m) }
func OrInt32(addr *int32, m int32) int32  { point(); return atomic.OrInt32(addr, m) }

type Int64 struct{ v atomic.Int64 }

func (x *Int64) Load() int64                    { point(); return x.v.Load() }
func (x *Int64) Store(val int64)                { point(); x.v.Store(val) }
func (x *Int64) Swap(n int64) int64             { point(); return x.v.Swap(n) }
func (x *Int64) CompareAndSwap(o, n int64) bool { point(); return x.v.CompareAndSwap(o, n) }
func (x *Int64) Add(d int64) int64              { point(); return x.v.Add(d) }
func (x *Int64) And(m int64) int64              { point(); return x.v.And(m) }
func (x *Int64) Or(m int64) int64               { point(); return x.v.Or(m) }

func LoadInt64(addr *int64) int64          { point(); return atomic.LoadInt64(addr) }
func StoreInt64(addr *int64, v int64)      { point(); atomic.StoreInt64(addr, v) }
func SwapInt64(addr *int64, n int64) int64 { point(); return atomic.SwapInt64(addr, n) }
func CompareAndSwapInt64(addr *int64, o, n int64) bool {
	point()
	return atomic.CompareAndSwapInt64(addr, o, n)
}
func AddInt64(addr *int64, d int64) int64 { point(); return atomic.AddInt64(addr, d) }
func AndInt64(addr *int64, m int64) int64 { point(); return atomic.AndInt64(addr, m) }
func OrInt64(addr *int64, m int64) int64  { point(); return atomic.OrInt64(addr, m) }

type Uint32 struct{ v atomic.Uint32 }

func (x *Uint32) Load() uint32                    { point(); return x.v.Load() }
func (x *Uint32) Store(val uint32)                { point(); x.v.Store(val) }
func (x *Uint32) Swap(n uint32) uint32            { point(); return x.v.Swap(n) }
func (x *Uint32) CompareAndSwap(o, n uint32) bool { point(); return x.v.CompareAndSwap(o, n) }
func (x *Uint32) Add(d uint32) uint32             { point(); return x.v.Add(d) }
func (x *Uint32) And(m uint32) uint32             { point(); return x.v.And(m) }
func (x *Uint32) Or(m uint32) uint32              { point(); return x.v.Or(m) }

func LoadUint32(addr *uint32) uint32           { point(); return atomic.LoadUint32(addr) }
func StoreUint32(addr *uint32, v uint32)       { point(); atomic.StoreUint32(addr, v) }
func SwapUint32(addr *uint32, n uint32) uint32 { point(); return atomic.SwapUint32(addr, n) }
func CompareAndSwapUint32(addr *uint32, o, n uint32) bool {
	point()
	return atomic.CompareAndSwapUint32(addr, o, n)
}
func AddUint32(addr *uint32, d uint32) uint32 { point(); return atomic.AddUint32(addr, d) }
func AndUint32(addr *uint32, m uint32) uint32 { point(); return atomic.AndUint32(addr, m) }
func OrUint32(addr *uint32, m uint32) uint32  { point(); return atomic.OrUint32(addr, m) }

type Uint64 struct{ v atomic.Uint64 }

func (x *Uint64) Load() uint64                    { point(); return x.v.Load() }
func (x *Uint64) Store(val uint64)                { point(); x.v.Store(val) }
func (x *Uint64) Swap(n uint64) uint64            { point(); return x.v.Swap(n) }
func (x *Uint64) CompareAndSwap(o, n uint64) bool { point(); return x.v.CompareAndSwap(o, n) }
func (x *Uint64) Add(d uint64) uint64             { point(); return x.v.Add(d) }
func (x *Uint64) And(m uint64) uint64             { point(); return x.v.And(m) }
func (x *Uint64) Or(m uint64) uint64              { point(); return x.v.Or(m) }

func LoadUint64(addr *uint64) uint64           { point(); return atomic.LoadUint64(addr) }
func StoreUint64(addr *uint64, v uint64)       { point(); atomic.StoreUint64(addr, v) }
func SwapUint64(addr *uint64, n uint64) uint64 { point(); return atomic.SwapUint64(addr, n) }
func CompareAndSwapUint64(addr *uint64, o, n uint64) bool {
	point()
	return atomic.CompareAndSwapUint64(addr, o, n)
}
func AddUint64(addr *uint64, d uint64) uint64 { point(); return atomic.AddUint64(addr, d) }
func AndUint64(addr *uint64, m uint64) uint64 { point(); return atomic.AndUint64(addr, m) }
func OrUint64(addr *uint64, m uint64) uint64  { point(); return atomic.OrUint64(addr, m) }

type Uintptr struct{ v atomic.Uintptr }

func (x *Uintptr) Load() uintptr                    { point(); return x.v.Load() }
func (x *Uintptr) Store(val uintptr)                { point(); x.v.Store(val) }
func (x *Uintptr) Swap(n uintptr) uintptr           { point(); return x.v.Swap(n) }
func (x *Uintptr) CompareAndSwap(o, n uintptr) bool { point(); return x.v.CompareAndSwap(o, n) }
func (x *Uintptr) Add(d uintptr) uintptr            { point(); return x.v.Add(d) }
func (x *Uintptr) And(m uintptr) uintptr            { point(); return x.v.And(m) }
func (x *Uintptr) Or(m uintptr) uintptr             { point(); return x.v.Or(m) }

func LoadUintptr(addr *uintptr) uintptr            { point(); return atomic.LoadUintptr(addr) }
func StoreUintptr(addr *uintptr, v uintptr)        { point(); atomic.StoreUintptr(addr, v) }
func SwapUintptr(addr *uintptr, n uintptr) uintptr { point(); return atomic.SwapUintptr(addr, n) }
func CompareAndSwapUintptr(addr *uintptr, o, n uintptr) bool {
	point()
	return atomic.CompareAndSwapUintptr(addr, o, n)
}
func AddUintptr(addr *uintptr, d uintptr) uintptr { point(); return atomic.AddUintptr(addr, d) }
func AndUintptr(addr *uintptr, m uintptr) uintptr { point(); return atomic.AndUintptr(addr, m) }
func OrUintptr(addr *uintptr, m uintptr) uintptr  { point(); return atomic.OrUintptr(addr, m) }
