// Package vclk is a virtual clock for the cancellation checks (C07): one tick per
// context poll; deadlines and timers fire at enumerated ticks, never by wall-clock
// time. When no clock is active, the time/context shims fall through to the real
// implementations.
package vclk

import (
	"context"
	"sort"
	"sync"
	"sync/atomic"
	"time"
)

var Debug = false

var Epoch = time.Date(2030, 1, 1, 0, 0, 0, 0, time.UTC)

const Tick = time.Millisecond

type timer struct {
	at    int64
	fn    func()
	fired bool
	seq   int
}

type Clock struct {
	mu         sync.Mutex
	ticks      int64
	timers     []*timer
	seq        int
	lastPolled *Ctx // the context polled most recently (see After)
}

var active atomic.Pointer[Clock]

func Active() *Clock { return active.Load() }

func Start() *Clock { c := &Clock{}; active.Store(c); return c }
func Stop()         { active.Store(nil) }

func (c *Clock) Ticks() int64 { c.mu.Lock(); defer c.mu.Unlock(); return c.ticks }

func (c *Clock) Now() time.Time { return Epoch.Add(time.Duration(c.Ticks()) * Tick) }

// At schedules fn at tick t (fires when the clock reaches t).
func (c *Clock) At(t int64, fn func()) *timer {
	c.mu.Lock()
	defer c.mu.Unlock()
	c.seq++
	tm := &timer{at: t, fn: fn, seq: c.seq}
	c.timers = append(c.timers, tm)
	return tm
}

func (c *Clock) stop(tm *timer) bool {
	c.mu.Lock()
	defer c.mu.Unlock()
	if tm.fired {
		return false
	}
	tm.fired = true
	return true
}

// due returns the unfired timers with at <= ticks, in (at, seq) order, marking them fired.
func (c *Clock) due() []*timer {
	var d []*timer
	for _, t := range c.timers {
		if !t.fired && t.at <= c.ticks {
			t.fired = true
			d = append(d, t)
		}
	}
	sort.Slice(d, func(i, j int) bool {
		if d[i].at != d[j].at {
			return d[i].at < d[j].at
		}
		return d[i].seq < d[j].seq
	})
	// drop fired timers
	var keep []*timer
	for _, t := range c.timers {
		if !t.fired {
			keep = append(keep, t)
		}
	}
	c.timers = keep
	return d
}

// Poll advances the clock by one tick and fires what is due.
func (c *Clock) Poll() {
	c.mu.Lock()
	c.ticks++
	d := c.due()
	c.mu.Unlock()
	for _, t := range d {
		t.fn()
	}
}

// NextTimer returns the tick of the earliest pending timer.
func (c *Clock) NextTimer() (int64, bool) {
	c.mu.Lock()
	defer c.mu.Unlock()
	var best int64
	ok := false
	for _, t := range c.timers {
		if !t.fired && (!ok || t.at < best) {
			best, ok = t.at, true
		}
	}
	return best, ok
}

// AdvanceTo moves the clock forward to tick t (never backwards) and fires what is due.
func (c *Clock) AdvanceTo(t int64) {
	c.mu.Lock()
	if t > c.ticks {
		c.ticks = t
	}
	d := c.due()
	c.mu.Unlock()
	for _, x := range d {
		x.fn()
	}
}

// AdvanceToNextTimer is the idle rule: nothing can run, so time passes until the next
// timer. Returns false when there is none.
func (c *Clock) AdvanceToNextTimer() bool {
	t, ok := c.NextTimer()
	if !ok {
		return false
	}
	c.AdvanceTo(t)
	return true
}

// After implements time.After under the virtual clock: the sleeper is the only runner,
// so either its own wake-up comes first (the clock jumps there and the channel is ready)
// or an earlier timer (a deadline) fires first, in which case the clock jumps to that
// timer and the returned channel is not ready.
func (c *Clock) After(d time.Duration) <-chan time.Time {
	ch := make(chan time.Time, 1)
	c.mu.Lock()
	lp := c.lastPolled
	c.mu.Unlock()
	if lp != nil && lp.Context.Err() != nil {
		// the caller is in `select { case <-ctx.Done(): ...; case <-time.After(d): ... }` with a
		// context that has already ended: it will not sleep at all, so no time passes
		c.lateWake(ch, c.Ticks()+int64(d/Tick))
		return ch
	}
	n := int64(d / Tick)
	if n < 0 {
		n = 0
	}
	c.mu.Lock()
	target := c.ticks + n
	c.mu.Unlock()
	for {
		next, ok := c.NextTimer()
		if !ok || next > target {
			break
		}
		// an earlier timer (a deadline, a cancellation) comes first
		c.AdvanceTo(next)
		if lp != nil && lp.Context.Err() != nil {
			// it ended the sleeper's context: the sleeper wakes up through ctx.Done(),
			// its own wake-up stays pending
			c.lateWake(ch, target)
			return ch
		}
	}
	c.AdvanceTo(target)
	ch <- Epoch.Add(time.Duration(target) * Tick)
	return ch
}

// lateWake: the sleeper's context has ended, so a correct sleeper returns through
// ctx.Done() at once. A sleeper that ignores its context would block for real; so that
// such code shows up as a (huge) overshoot instead of hanging the harness, virtual time
// jumps to the wake-up tick once the program has made no progress for 3 s of real time.
func (c *Clock) lateWake(ch chan time.Time, target int64) {
	c.At(target, func() {
		select {
		case ch <- Epoch.Add(time.Duration(target) * Tick):
		default:
		}
	})
	// only when the program makes no progress at all (no context poll) for 3 s of real
	// time: a running evaluation polls thousands of times per millisecond, so this cannot
	// fire under a correct sleeper, however loaded the machine is
	var watch func(last int64)
	watch = func(last int64) {
		time.AfterFunc(3*time.Second, func() {
			if Active() != c {
				return
			}
			now := c.Ticks()
			if now != last {
				watch(now)
				return
			}
			c.AdvanceTo(target)
		})
	}
	watch(c.Ticks())
}

// ---- contexts ------------------------------------------------------------------

// Ctx wraps a cancellable context: every Done() call is one clock tick.
type Ctx struct {
	context.Context
	clock *Clock
	dl    time.Time
	hasDl bool
}

func (x *Ctx) Done() <-chan struct{} {
	x.clock.Poll()
	// recorded after the poll: firing a deadline makes the context package poll parent
	// contexts (removeChild), which must not count as "the caller's context"
	x.clock.mu.Lock()
	x.clock.lastPolled = x
	x.clock.mu.Unlock()
	return x.Context.Done()
}

// Wrap makes every poll of ctx a tick of the clock.
func (c *Clock) Wrap(ctx context.Context) context.Context { return &Ctx{Context: ctx, clock: c} }

func (x *Ctx) Deadline() (time.Time, bool) {
	if x.hasDl {
		return x.dl, true
	}
	return x.Context.Deadline()
}

// NewRoot returns a root context on the clock (no deadline) and its cancel function.
func (c *Clock) NewRoot(parent context.Context) (*Ctx, context.CancelFunc) {
	inner, cancel := context.WithCancel(parent)
	return &Ctx{Context: inner, clock: c}, cancel
}

// WithDeadline returns a child that is cancelled when the virtual clock reaches d.
func (c *Clock) WithDeadline(parent context.Context, d time.Time) (context.Context, context.CancelFunc) {
	if pd, ok := parent.Deadline(); ok && pd.Before(d) {
		d = pd
	}
	inner, cancel := context.WithCancelCause(parent)
	at := int64(d.Sub(Epoch) / Tick)
	tm := c.At(at, func() { cancel(context.DeadlineExceeded) })
	x := &Ctx{Context: inner, clock: c, dl: d, hasDl: true}
	if c.Ticks() >= at {
		c.AdvanceTo(c.Ticks())
	}
	return x, func() { c.stop(tm); cancel(context.Canceled) }
}
