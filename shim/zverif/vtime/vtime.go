// Package vtime stands in for "time" in files of jig/lisp (import rewritten by the
// build overlay). With an active virtual clock Now/Until/Since/After/Sleep follow it;
// otherwise everything is the real package time.
package vtime

import (
	"time"

	"github.com/jig/lisp/zverif/vclk"
)

type (
	Duration   = time.Duration
	Time       = time.Time
	Timer      = time.Timer
	Ticker     = time.Ticker
	Location   = time.Location
	Month      = time.Month
	Weekday    = time.Weekday
	ParseError = time.ParseError
)

const (
	Nanosecond  = time.Nanosecond
	Microsecond = time.Microsecond
	Millisecond = time.Millisecond
	Second      = time.Second
	Minute      = time.Minute
	Hour        = time.Hour

	RFC3339     = time.RFC3339
	RFC3339Nano = time.RFC3339Nano
	RFC1123     = time.RFC1123
	Kitchen     = time.Kitchen
	DateTime    = time.DateTime
	DateOnly    = time.DateOnly
	TimeOnly    = time.TimeOnly
)

var (
	UTC             = time.UTC
	Local           = time.Local
	Date            = time.Date
	Unix            = time.Unix
	UnixMilli       = time.UnixMilli
	UnixMicro       = time.UnixMicro
	Parse           = time.Parse
	ParseDuration   = time.ParseDuration
	ParseInLocation = time.ParseInLocation
	LoadLocation    = time.LoadLocation
	FixedZone       = time.FixedZone
	NewTicker       = time.NewTicker
	Tick            = time.Tick
	NewTimer        = time.NewTimer
	AfterFunc       = time.AfterFunc
)

func Now() time.Time {
	if c := vclk.Active(); c != nil {
		return c.Now()
	}
	return time.Now()
}

func Since(t time.Time) time.Duration { return Now().Sub(t) }
func Until(t time.Time) time.Duration { return t.Sub(Now()) }

func After(d time.Duration) <-chan time.Time {
	if c := vclk.Active(); c != nil {
		return c.After(d)
	}
	return time.After(d)
}

func Sleep(d time.Duration) {
	if c := vclk.Active(); c != nil {
		<-c.After(d)
		return
	}
	time.Sleep(d)
}
