// Package vcore is the controlled scheduler used by the model-checking harness.
// It is added to the build of jig/lisp through `go build -overlay` (it does not
// exist in the repository); the sync shims (vsync, vsynca) and the tag-guarded
// hooks of lib/concurrent call into it. When no exploration is active every
// primitive falls through to the real sync implementation.
//
// Cooperative scheduling: exactly one managed goroutine runs at any time. Before
// every visible operation the running thread calls schedule(), which records a
// choice point (the enabled threads in canonical order) and hands the token to the
// chosen thread. A thread that cannot proceed parks with a predicate; "nobody
// enabled and not everybody finished" is a deadlock.
package vcore

import (
	"fmt"
	"sync"
	"sync/atomic"
)

type Class int8

const (
	ClassEnv  Class = iota // locks of env.Env (and anything else outside lib/concurrent)
	ClassAtom              // locks of lib/concurrent
	ClassHook              // explicit hook points
)

const (
	stRunnable = iota
	stBlocked
	stDone
)

type Thread struct {
	ID     int
	wake   chan struct{}
	state  int
	pred   func() bool
	Why    string
	objCtr int
	Name   string
	forbid string // label this thread's next hook point must not have (see ForbidNext)
}

// Point is one recorded choice point.
type Point struct {
	Enabled    []int  // thread ids, canonical order: running thread first if enabled, then ascending
	Chosen     int    // index into Enabled
	Cur        int    // id of the thread that reached the point (-1: initial)
	CurEnabled bool   // the running thread could have continued (choosing another = preemption)
	Free       bool   // a voluntary yield (boundary between two harness operations): switching away costs no preemption
	Label      string // what the running thread was about to do
}

// MutexState is the model state of one RWMutex.
type MutexState struct {
	ID64      int64 // id given outside explorations (library objects); set atomically
	ID        int
	writer    *Thread
	readers   int
	waitingW  int
	firstUser int // managed thread id that touched it first in this execution (0 = none, id+1)
	epoch     uint64
}

// Sets that persist across the executions of one scenario (partial-order reduction).
type Reduction struct {
	Enabled     bool
	Shared      map[int]bool // objects touched by >= 2 managed threads in some execution
	WriteLocked map[int]bool // objects write-locked in some execution
	Grew        bool
}

func NewReduction(enabled bool) *Reduction {
	return &Reduction{Enabled: enabled, Shared: map[int]bool{}, WriteLocked: map[int]bool{}}
}

type Sched struct {
	threads  []*Thread
	cur      *Thread
	prefix   []int
	step     int
	Points   []Point
	Deadlock bool
	Blocked  []string       // who was blocked on what at the deadlock
	BlockedT map[int]string // thread id -> what it was blocked in
	StepCap  bool
	Diverged string
	// Misdrawn: the code under test chose at random (a Go select with several ready cases)
	// and did not draw the arm this schedule asks for; the execution is completed with default
	// choices, discarded by the explorer and run again.
	Misdrawn bool
	done     chan struct{}
	finished bool
	Red      *Reduction
	// VisibleClass says whether lock operations of a class are scheduling points at all.
	VisibleClass [3]bool
	MaxPoints    int
	// Policy, when set, picks the next thread at every choice point beyond the replayed prefix (a
	// directed schedule instead of the default "keep running"); it returns an index into enabled.
	Policy func(label string, cur int, enabled []int) int
	// IdleHook is called when no thread is enabled; it returns true if it made time pass
	// (fired a timer), in which case enabledness is re-evaluated instead of reporting a deadlock.
	IdleHook func() bool
	epoch    uint64
	setupCtr int
	Switches int // context switches that happened inside an operation (evidence)
	mu       sync.Mutex
}

var active atomic.Pointer[Sched]
var globalObjCtr atomic.Int64
var epochCtr atomic.Uint64

// Active returns the scheduler of the running exploration, or nil.
func Active() *Sched { return active.Load() }

func New(prefix []int, red *Reduction) *Sched {
	s := &Sched{prefix: prefix, done: make(chan struct{}), Red: red, MaxPoints: 20000}
	s.VisibleClass = [3]bool{true, true, true}
	s.epoch = epochCtr.Add(1)
	return s
}

// BeginSetup makes s the active scheduler in "setup" mode: operations pass through
// (nobody else runs) but objects get deterministic per-execution ids.
func (s *Sched) BeginSetup() { active.Store(s) }

// Run starts the given thread bodies under the scheduler and returns when all
// managed threads (including spawned ones) finished, or on deadlock / cap.
func (s *Sched) Run(bodies ...func()) {
	for i, b := range bodies {
		t := &Thread{ID: i, wake: make(chan struct{}, 1), Name: fmt.Sprintf("T%d", i)}
		s.threads = append(s.threads, t)
		body := b
		go func() {
			<-t.wake
			defer s.exit(t)
			body()
		}()
	}
	active.Store(s)
	main := &Thread{ID: -1, state: stDone}
	s.cur = main
	s.schedule(main, "start")
	<-s.done
	active.Store(nil)
}

func (s *Sched) enabled(t *Thread) bool {
	switch t.state {
	case stRunnable:
		return true
	case stBlocked:
		return t.pred()
	}
	return false
}

func (s *Sched) allDone() bool {
	for _, t := range s.threads {
		if t.state != stDone {
			return false
		}
	}
	return true
}

// schedule is called by the running thread me at a scheduling point.
func (s *Sched) schedule(me *Thread, label string) {
	var en []*Thread
	meEnabled := me.ID >= 0 && s.enabled(me)
	if meEnabled {
		en = append(en, me)
	}
	for _, t := range s.threads {
		if t != me && s.enabled(t) {
			en = append(en, t)
		}
	}
	for len(en) == 0 && !s.allDone() && s.IdleHook != nil && s.IdleHook() {
		// nobody can run: (virtual) time passes until the next timer fires, which may
		// enable somebody
		if me.ID >= 0 && s.enabled(me) {
			en = append(en, me)
			meEnabled = true
		}
		for _, t := range s.threads {
			if t != me && s.enabled(t) {
				en = append(en, t)
			}
		}
	}
	if len(en) == 0 {
		if s.allDone() {
			s.finish()
			return
		}
		s.Deadlock = true
		s.BlockedT = map[int]string{}
		for _, t := range s.threads {
			if t.state == stBlocked {
				s.Blocked = append(s.Blocked, fmt.Sprintf("%s blocked in %s", t.Name, t.Why))
				s.BlockedT[t.ID] = t.Why
			}
		}
		s.finish()
		select {} // this goroutine is abandoned (its scenario objects are garbage)
	}
	idx := 0
	if len(en) > 1 {
		if len(s.Points) >= s.MaxPoints {
			s.StepCap = true
			s.finish()
			select {}
		}
		if s.step < len(s.prefix) && !s.Misdrawn {
			idx = s.prefix[s.step]
			if idx >= len(en) {
				s.Diverged = fmt.Sprintf("replay diverged at point %d: choice %d of %d enabled (%s)", s.step, idx, len(en), label)
				s.finish()
				select {}
			}
		}
		ids := make([]int, len(en))
		for i, t := range en {
			ids[i] = t.ID
		}
		if s.Policy != nil && (s.step >= len(s.prefix) || s.Misdrawn) {
			if c := s.Policy(label, me.ID, ids); c >= 0 && c < len(en) {
				idx = c
			}
		}
		s.Points = append(s.Points, Point{Enabled: ids, Chosen: idx, Cur: me.ID, CurEnabled: meEnabled, Label: label,
			Free: len(label) >= 7 && label[:7] == "op-next"})
		s.step++
	}
	next := en[idx]
	if next == me {
		return
	}
	if me.ID >= 0 && me.state != stDone && label != "start" {
		s.Switches++
	}
	s.cur = next
	next.wake <- struct{}{}
	if me.ID < 0 || me.state == stDone {
		return
	}
	<-me.wake
	if me.state == stBlocked {
		me.state = stRunnable
		me.pred = nil
	}
}

func (s *Sched) finish() {
	s.mu.Lock()
	if !s.finished {
		s.finished = true
		close(s.done)
	}
	s.mu.Unlock()
}

func (s *Sched) exit(t *Thread) {
	t.forbid = ""
	t.state = stDone
	s.schedule(t, "exit")
}

// block parks the running thread until pred() holds.
func (s *Sched) block(me *Thread, pred func() bool, why string) {
	me.state = stBlocked
	me.pred = pred
	me.Why = why
	s.schedule(me, "block:"+why)
	me.state = stRunnable
}

// ---- hooks -------------------------------------------------------------------

// Spawn registers a new managed thread (called by the creator before `go`).
func (s *Sched) Spawn(name string) *Thread {
	t := &Thread{ID: len(s.threads), wake: make(chan struct{}, 1), Name: name}
	if name == "" {
		t.Name = fmt.Sprintf("T%d", t.ID)
	}
	s.threads = append(s.threads, t)
	return t
}

// Enter is called first thing by the spawned goroutine: it parks until scheduled.
func (s *Sched) Enter(t *Thread) { <-t.wake }

// Exit is called (deferred) when the spawned goroutine ends.
func (s *Sched) Exit(t *Thread) { s.exit(t) }

// Point is an explicit scheduling point.
func (s *Sched) Point(label string) {
	me := s.cur
	if me == nil || me.ID < 0 {
		return
	}
	if me.forbid != "" {
		if me.forbid == label {
			s.Misdrawn = true
		}
		me.forbid = ""
	}
	if !s.VisibleClass[ClassHook] {
		return
	}
	s.schedule(me, label)
}

// Choose is a choice point that is not about which thread runs: the harness asks which of n
// alternatives an environment answer takes (e.g. which ready arm a select takes). It is
// recorded like a free yield: alternatives cost no preemption.
func (s *Sched) Choose(n int, label string) int {
	me := s.cur
	if me == nil || me.ID < 0 || n <= 1 {
		return 0
	}
	if len(s.Points) >= s.MaxPoints {
		s.StepCap = true
		s.finish()
		select {}
	}
	idx := 0
	if s.step < len(s.prefix) && !s.Misdrawn {
		idx = s.prefix[s.step]
		if idx >= n {
			s.Diverged = fmt.Sprintf("replay diverged at point %d: choice %d of %d alternatives (%s)", s.step, idx, n, label)
			s.finish()
			select {}
		}
	}
	ids := make([]int, n)
	for i := range ids {
		ids[i] = -10 - i
	}
	s.Points = append(s.Points, Point{Enabled: ids, Chosen: idx, Cur: me.ID, CurEnabled: true, Label: "choose:" + label, Free: true})
	s.step++
	return idx
}

// ForbidNext says that the running thread's next hook point must not carry this label;
// if it does, the execution is marked Misdrawn (the code drew another select arm than the
// schedule asks for).
func (s *Sched) ForbidNext(label string) {
	if me := s.cur; me != nil && me.ID >= 0 {
		me.forbid = label
	}
}

// Await parks the running thread until pred holds (used in place of real blocking).
func (s *Sched) Await(pred func() bool, why string) {
	me := s.cur
	if me == nil || me.ID < 0 {
		return
	}
	me.forbid = ""
	if s.VisibleClass[ClassHook] {
		s.schedule(me, "await:"+why)
	}
	for !pred() {
		s.block(me, pred, why)
	}
}

// BlockedNow reports what every currently blocked thread is blocked in (thread id -> reason).
func (s *Sched) BlockedNow() map[int]string {
	m := map[int]string{}
	for _, t := range s.threads {
		if t.state == stBlocked {
			m[t.ID] = t.Why
		}
	}
	return m
}

// Cur returns the running managed thread id (-1 during setup).
func (s *Sched) Cur() int {
	if s.cur == nil {
		return -1
	}
	return s.cur.ID
}

// ---- model mutex ---------------------------------------------------------------

func (s *Sched) touch(m *MutexState, me *Thread) {
	if m.epoch != s.epoch {
		// first use in this execution: forget the state a previous (possibly abandoned)
		// execution left behind
		m.epoch = s.epoch
		m.writer, m.readers, m.waitingW, m.firstUser = nil, 0, 0, 0
		if m.ID >= 1000000 {
			m.ID = 0
		}
	}
	if m.ID == 0 && m.ID64 != 0 {
		m.ID = int(m.ID64)
	}
	if m.ID == 0 {
		if me == nil || me.ID < 0 {
			s.setupCtr++
			m.ID = 1000000 + s.setupCtr
		} else {
			me.objCtr++
			m.ID = 2000000 + me.ID*10000 + me.objCtr
		}
	}
	if me != nil && me.ID >= 0 {
		if m.firstUser == 0 {
			m.firstUser = me.ID + 1
		} else if m.firstUser != me.ID+1 && !s.Red.Shared[m.ID] {
			s.Red.Shared[m.ID] = true
			s.Red.Grew = true
		}
	}
}

func (s *Sched) visible(class Class, m *MutexState, write bool) bool {
	if !s.VisibleClass[class] {
		return false
	}
	if !s.Red.Enabled {
		return true
	}
	if !s.Red.Shared[m.ID] {
		return false // only one thread ever touches it: commutes with everything
	}
	if !write && !s.Red.WriteLocked[m.ID] {
		return false // read lock on a never write-locked mutex: never blocks, delays nobody
	}
	return true
}

func (s *Sched) managed() *Thread {
	if s.cur == nil || s.cur.ID < 0 {
		return nil
	}
	return s.cur
}

func (s *Sched) MLock(m *MutexState, class Class) {
	me := s.managed()
	s.touch(m, me)
	if me == nil {
		return
	}
	if !s.Red.WriteLocked[m.ID] {
		s.Red.WriteLocked[m.ID] = true
		s.Red.Grew = true
	}
	if s.visible(class, m, true) {
		s.schedule(me, fmt.Sprintf("Lock(%d)", m.ID))
	}
	if m.writer != nil || m.readers > 0 {
		m.waitingW++
		for m.writer != nil || m.readers > 0 {
			s.block(me, func() bool { return m.writer == nil && m.readers == 0 }, fmt.Sprintf("Lock(%d)", m.ID))
		}
		m.waitingW--
	}
	m.writer = me
}

func (s *Sched) MUnlock(m *MutexState, class Class) {
	me := s.managed()
	s.touch(m, me)
	if me == nil {
		return
	}
	if s.visible(class, m, true) {
		s.schedule(me, fmt.Sprintf("Unlock(%d)", m.ID))
	}
	m.writer = nil
}

func (s *Sched) MRLock(m *MutexState, class Class) {
	me := s.managed()
	s.touch(m, me)
	if me == nil {
		return
	}
	if s.visible(class, m, false) {
		s.schedule(me, fmt.Sprintf("RLock(%d)", m.ID))
	}
	// Go's RWMutex gives waiting writers preference over new readers
	for m.writer != nil || m.waitingW > 0 {
		s.block(me, func() bool { return m.writer == nil && m.waitingW == 0 }, fmt.Sprintf("RLock(%d)", m.ID))
	}
	m.readers++
}

func (s *Sched) MRUnlock(m *MutexState, class Class) {
	me := s.managed()
	s.touch(m, me)
	if me == nil {
		return
	}
	if s.visible(class, m, false) {
		s.schedule(me, fmt.Sprintf("RUnlock(%d)", m.ID))
	}
	if m.readers > 0 {
		m.readers--
	}
}

// InactiveID gives objects used outside any exploration (library loading) a stable id.
func InactiveID(m *MutexState) {
	// may be called by several free-running goroutines at once (race pass): atomic
	if atomic.LoadInt64(&m.ID64) == 0 {
		atomic.CompareAndSwapInt64(&m.ID64, 0, globalObjCtr.Add(1))
	}
}

// RWMutexE / RWMutexA are the shim mutex types (env class / atom class).
type rw struct {
	real sync.RWMutex
	st   MutexState
}

func (m *rw) lock(c Class) {
	if s := Active(); s != nil {
		s.MLock(&m.st, c)
		return
	}
	InactiveID(&m.st)
	m.real.Lock()
}
func (m *rw) unlock(c Class) {
	if s := Active(); s != nil {
		s.MUnlock(&m.st, c)
		return
	}
	m.real.Unlock()
}
func (m *rw) rlock(c Class) {
	if s := Active(); s != nil {
		s.MRLock(&m.st, c)
		return
	}
	InactiveID(&m.st)
	m.real.RLock()
}
func (m *rw) runlock(c Class) {
	if s := Active(); s != nil {
		s.MRUnlock(&m.st, c)
		return
	}
	m.real.RUnlock()
}

type RWMutexE struct{ rw }

func (m *RWMutexE) Lock()                { m.lock(ClassEnv) }
func (m *RWMutexE) Unlock()              { m.unlock(ClassEnv) }
func (m *RWMutexE) RLock()               { m.rlock(ClassEnv) }
func (m *RWMutexE) RUnlock()             { m.runlock(ClassEnv) }
func (m *RWMutexE) TryLock() bool        { m.lock(ClassEnv); return true }
func (m *RWMutexE) TryRLock() bool       { m.rlock(ClassEnv); return true }
func (m *RWMutexE) RLocker() sync.Locker { return rlocker{&m.rw, ClassEnv} }

type RWMutexA struct{ rw }

func (m *RWMutexA) Lock()                { m.lock(ClassAtom) }
func (m *RWMutexA) Unlock()              { m.unlock(ClassAtom) }
func (m *RWMutexA) RLock()               { m.rlock(ClassAtom) }
func (m *RWMutexA) RUnlock()             { m.runlock(ClassAtom) }
func (m *RWMutexA) TryLock() bool        { m.lock(ClassAtom); return true }
func (m *RWMutexA) TryRLock() bool       { m.rlock(ClassAtom); return true }
func (m *RWMutexA) RLocker() sync.Locker { return rlocker{&m.rw, ClassAtom} }

type rlocker struct {
	m *rw
	c Class
}

func (r rlocker) Lock()   { r.m.rlock(r.c) }
func (r rlocker) Unlock() { r.m.runlock(r.c) }

// MutexE / MutexA model sync.Mutex (exclusive only).
type MutexE struct{ rw }

func (m *MutexE) Lock()         { m.lock(ClassEnv) }
func (m *MutexE) Unlock()       { m.unlock(ClassEnv) }
func (m *MutexE) TryLock() bool { m.lock(ClassEnv); return true }

type MutexA struct{ rw }

func (m *MutexA) Lock()         { m.lock(ClassAtom) }
func (m *MutexA) Unlock()       { m.unlock(ClassAtom) }
func (m *MutexA) TryLock() bool { m.lock(ClassAtom); return true }
