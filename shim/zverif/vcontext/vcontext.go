// Package vcontext stands in for "context" in files of jig/lisp (import rewritten by the
// build overlay). With an active virtual clock WithTimeout/WithDeadline create contexts
// whose deadline is a tick of that clock; everything else is the real package context.
package vcontext

import (
	"context"
	"time"

	"github.com/jig/lisp/zverif/vclk"
)

type (
	Context         = context.Context
	CancelFunc      = context.CancelFunc
	CancelCauseFunc = context.CancelCauseFunc
)

var (
	Canceled         = context.Canceled
	DeadlineExceeded = context.DeadlineExceeded
	Background       = context.Background
	TODO             = context.TODO
	WithCancelCause  = context.WithCancelCause
	WithValue        = context.WithValue
	WithoutCancel    = context.WithoutCancel
	AfterFunc        = context.AfterFunc
	Cause            = context.Cause
)

func WithDeadline(parent Context, d time.Time) (Context, CancelFunc) {
	if c := vclk.Active(); c != nil {
		return c.WithDeadline(parent, d)
	}
	return context.WithDeadline(parent, d)
}

func WithTimeout(parent Context, timeout time.Duration) (Context, CancelFunc) {
	if c := vclk.Active(); c != nil {
		return c.WithDeadline(parent, c.Now().Add(timeout))
	}
	return context.WithTimeout(parent, timeout)
}

func WithDeadlineCause(parent Context, d time.Time, cause error) (Context, CancelFunc) {
	if c := vclk.Active(); c != nil {
		return c.WithDeadline(parent, d)
	}
	return context.WithDeadlineCause(parent, d, cause)
}

func WithTimeoutCause(parent Context, timeout time.Duration, cause error) (Context, CancelFunc) {
	if c := vclk.Active(); c != nil {
		return c.WithDeadline(parent, c.Now().Add(timeout))
	}
	return context.WithTimeoutCause(parent, timeout, cause)
}

// WithCancel: under a virtual clock the child's polls are clock ticks too.
func WithCancel(parent Context) (Context, CancelFunc) {
	inner, cancel := context.WithCancel(parent)
	if c := vclk.Active(); c != nil {
		return c.Wrap(inner), cancel
	}
	return inner, cancel
}
