// Package vsynca stands in for "sync" in files of jig/lisp (import rewritten by the
// build overlay): RWMutex and Mutex are model mutexes known to the controlled
// scheduler; everything else is the real sync.
package vsynca

import (
	"sync"

	"github.com/jig/lisp/zverif/vcore"
)

type (
	RWMutex   = vcore.RWMutexA
	Mutex     = vcore.MutexA
	WaitGroup = sync.WaitGroup
	Once      = sync.Once
	Cond      = sync.Cond
	Map       = sync.Map
	Pool      = sync.Pool
	Locker    = sync.Locker
)

func NewCond(l Locker) *Cond { return sync.NewCond(l) }

var (
	OnceFunc = sync.OnceFunc
)
