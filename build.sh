#!/bin/bash
# Builds .work/bin/vcheck (tags verif, overlay) from the current /repo tree.
set -eu
export GOFLAGS=-mod=mod GOPROXY=off GOSUMDB=off GOTOOLCHAIN=local
VERIF_DIR="${VERIF_DIR:-$(cd "$(dirname "${BASH_SOURCE[0]}")" && pwd)}"
VERIF_REPO="${VERIF_REPO:-/repo}"
cd "$VERIF_DIR/harness"
mkdir -p "$VERIF_DIR/.work/bin" "$VERIF_DIR/.work/overlay"
MODFLAG=""
if [ "$VERIF_REPO" != "/repo" ]; then
  # build against another copy of the repository (scratch worktree): same go.mod with the replace redirected
  sed "s#=> /repo#=> $VERIF_REPO#" go.mod > "$VERIF_DIR/.work/alt.mod"
  cp go.sum "$VERIF_DIR/.work/alt.sum"
  MODFLAG="-modfile=$VERIF_DIR/.work/alt.mod"
fi
(
  flock 9
  if [ -x "$VERIF_DIR/shim/mkoverlay.sh" ]; then
    "$VERIF_DIR/shim/mkoverlay.sh" "$VERIF_REPO" "$VERIF_DIR/.work/overlay"
    go build $MODFLAG -tags verif -overlay "$VERIF_DIR/.work/overlay/overlay.json" -o "$VERIF_DIR/.work/bin/vcheck.new" ./cmd/vcheck
  else
    go build $MODFLAG -tags verif -o "$VERIF_DIR/.work/bin/vcheck.new" ./cmd/vcheck
  fi
  mv "$VERIF_DIR/.work/bin/vcheck.new" "$VERIF_DIR/.work/bin/vcheck"
  # the same program under the race detector (free-running race pass of C09-C11)
  if [ "${VERIF_SKIP_RACE_BUILD:-0}" != 1 ]; then
    go build $MODFLAG -race -tags verif -overlay "$VERIF_DIR/.work/overlay/overlay.json" -o "$VERIF_DIR/.work/bin/vcheck-race.new" ./cmd/vcheck \
      && mv "$VERIF_DIR/.work/bin/vcheck-race.new" "$VERIF_DIR/.work/bin/vcheck-race"
  fi
) 9>"$VERIF_DIR/.work/build.lock"
