#!/bin/bash
# seedmatrix.sh [seed-dir-names…]: for every seeded change under /verif/seeded (or the ones named),
# applies the patch to /repo's working tree, runs the quick check of the property it was written
# against (plus any extra checks listed in seeded/<name>/also), reverts /repo, and writes one line per
# seed to seeded/RESULTS.txt. /repo must be clean and nothing else may use it meanwhile.
cd "$(dirname "$0")/.."
export GOFLAGS=-mod=mod GOPROXY=off GOSUMDB=off GOTOOLCHAIN=local
if [ -n "$(git -C /repo status --porcelain)" ]; then echo "/repo is not clean"; exit 2; fi
trap 'git -C /repo checkout -- . ; git -C /repo clean -fdq' EXIT
names=("$@"); [ ${#names[@]} -eq 0 ] && names=($(ls seeded | grep -v RESULTS))
out=seeded/RESULTS.txt; tmp=$(mktemp)
[ $# -eq 0 ] && : > $out
for n in "${names[@]}"; do
  d=seeded/$n; [ -f $d/patch.diff ] || continue
  own=$(python3 -c "import json;print(json.load(open('$d/meta.json'))['property'])")
  checks="$own"; [ -f $d/also ] && checks="$checks $(cat $d/also)"
  git -C /repo apply "$PWD/$d/patch.diff" || { echo "$n patch does not apply" >> $out; continue; }
  line="$n"
  for c in $checks; do
    ./run.sh $c quick > $tmp 2>&1; rc=$?
    sig=$(grep -a -m1 "signature:" $tmp | cut -c1-160)
    line="$line | $c rc=$rc $sig"
  done
  git -C /repo checkout -- . ; git -C /repo clean -fdq
  echo "$line" | tee -a $out
done
rm -f $tmp replays/*.json
