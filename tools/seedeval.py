#!/usr/bin/env python3
"""seedeval.py <ID> <n> [check ids...]: confirms a seeded change produced by a sub-agent
(/tmp/seed/<ID>/OUT/<n>/) in scratch worktrees — baseline passes with the patch, the demo fails
with it and passes without it — then runs my checks against it (scratch copy), and stores it under
/verif/seeded/<ID>-<n>/ with meta.json."""
import sys, os, re, subprocess, json, shutil, glob
ID, n = sys.argv[1], sys.argv[2]
checks = sys.argv[3:] or [ID]
ROUND = os.environ.get("ROUND", "1")
src = f"/tmp/seed/{ID}/OUT/{n}" if ROUND == "1" else (f"/tmp/seed/{ID}.out/{n}" if ROUND == "2" else f"/tmp/seed{ROUND}/{ID}.out/{n}")
env = dict(os.environ, GOFLAGS="-mod=mod", GOPROXY="off", GOSUMDB="off", GOTOOLCHAIN="local")
def sh(cmd, cwd=None, timeout=1200):
    p = subprocess.run(cmd, shell=True, cwd=cwd, env=env, capture_output=True, text=True, timeout=timeout)
    return p.returncode, (p.stdout + p.stderr)
demos = [f for f in glob.glob(src + "/*.go")] + glob.glob(src + "/demo/*.go")
meta = {"property": ID, "source": f"independent sub-agent given only the property text (round {ROUND}, seed {ID}/{n})"}
def place(wt):
    """copy the demo into the worktree; return (pkgdir, tags, is_test)"""
    d = demos[0]
    txt = open(d).read()
    m = re.search(r'^package\s+(\w+)', txt, re.M)
    pkg = m.group(1)
    tags = re.findall(r'^//go:build\s+(\w+)', txt, re.M)
    notes = open(src + "/notes.md").read() if os.path.exists(src + "/notes.md") else ""
    dest = {"lisp": ".", "lisp_test": ".", "printer_test": "printer", "printer": "printer", "reader_test": "reader", "reader": "reader",
            "call": "lib/call", "call_test": "lib/call", "env": "env", "env_test": "env", "concurrent": "lib/concurrent", "concurrent_test": "lib/concurrent",
            "core": "lib/core", "core_test": "lib/core", "types": "types", "types_test": "types", "repl": "repl", "repl_test": "repl", "main": "zdemo", "nscore": "lib/core/nscore", "nscore_test": "lib/core/nscore"}.get(pkg, "z" + pkg)
    os.makedirs(os.path.join(wt, dest), exist_ok=True)
    for f in demos:
        name = os.path.basename(f)
        if name.endswith("_test.go") or pkg == "main":
            tgt = name if pkg == "main" else f"zseed_{ID.lower()}_{n}_{name}"
        else:
            tgt = name
        shutil.copy(f, os.path.join(wt, dest, tgt))
    return dest, tags, pkg != "main"
res = {}
for variant in ("with", "without"):
    wt = f"/tmp/scratch/eval{ROUND}-{ID}-{n}-{variant}"
    shutil.rmtree(wt, ignore_errors=True)
    sh(f"git -C /repo worktree prune; git -C /repo worktree add -q --detach {wt} HEAD")
    if variant == "with":
        rc, out = sh(f"git apply {src}/patch.diff", cwd=wt)
        if rc != 0:
            print("PATCH DOES NOT APPLY", out); sys.exit(3)
        rc, out = sh(f"/verif/baseline.sh {wt}")
        res["baseline_with_patch"] = out.strip().splitlines()[0] if out.strip() else ""
    dest, tags, is_test = place(wt)
    tagflag = ("-tags " + ",".join(tags)) if tags else ""
    if is_test:
        names = []
        for f in demos:
            names += re.findall(r'^func (Test\w+)\(', open(f).read(), re.M)
        runre = "^(" + "|".join(names) + ")$" if names else "."
        rc, out = sh(f"go test {tagflag} -vet=off -count=1 -timeout 600s ./{dest}/ -run '{runre}' 2>&1 | tail -15", cwd=wt, timeout=1200)
        ok = ("ok " in out or "ok\t" in out) and "FAIL" not in out
    else:
        rc, out = sh(f"go run {tagflag} ./{dest}/ 2>&1", cwd=wt, timeout=900)
        ok = rc == 0 and "FAIL" not in out and "panic" not in out and "fatal error" not in out
        out = "\n".join(out.splitlines()[-15:])
    res["demo_" + variant] = "PASS" if ok else "FAIL"
    res["demo_" + variant + "_tail"] = out[-600:]
    sh(f"git -C /repo worktree remove --force {wt}")
    shutil.rmtree(wt, ignore_errors=True)
print(json.dumps({k: v for k, v in res.items() if not k.endswith("_tail")}))
confirmed = res.get("demo_with") == "FAIL" and res.get("demo_without") == "PASS" and "48/48" in res.get("baseline_with_patch", "")
meta["confirmed"] = confirmed
meta["confirmation"] = res
# run my checks in a scratch copy
race = "0" if any(c in ("C02", "C09", "C10", "C11", "C20") for c in checks) else "1"
rc, out = sh(f"BASELINE=0 VERIF_SKIP_RACE_BUILD={race} /verif/tools/scratchrun.sh seed{ROUND}-{ID}-{n} {src}/patch.diff {' '.join(checks)}", timeout=7200)
print(out.strip())
meta["checks_run"] = out.strip().splitlines()
meta["caught_by"] = [l.split()[0].split("=")[1] for l in out.splitlines() if l.startswith("check=") and " rc=1 " in l]
dst = f"/verif/seeded/{ID}-{n}" if ROUND == "1" else f"/verif/seeded/r{ROUND}-{ID}-{n}"
os.makedirs(dst, exist_ok=True)
shutil.copy(src + "/patch.diff", dst + "/patch.diff")
for f in demos:
    shutil.copy(f, dst + "/" + os.path.basename(f))
if os.path.exists(src + "/notes.md"):
    shutil.copy(src + "/notes.md", dst + "/notes.md")
    notes = open(src + "/notes.md").read()
    meta["needs_to_manifest"] = notes[:1500]
json.dump(meta, open(dst + "/meta.json", "w"), indent=1)
print("confirmed" if confirmed else "NOT CONFIRMED", "caught_by", meta["caught_by"])
