#!/usr/bin/env python3
"""Regenerates /verif/MANIFEST.json from the table below (kept in one place so it stays valid)."""
import json
props={json.loads(l)['id']:json.loads(l) for l in open('/verif/properties.jsonl')}
# id -> (technique, level text, level note, design ref)
CLAIMED={
 'C05':("exhaustive enumeration of bounded text spaces against the real reader (explicit-state, every case executed)",
        "Every token sequence (<=4 quick / <=5 thorough over 31 tokens), every byte-fragment sequence and every preamble line sequence within the bound is run through six reader entry points of the code built from /repo under recover and a watchdog. A pass is a coverage statement over the whole bounded space, which is what an 'all inputs' panic/hang property needs; the defects found this way (prefix macro at EOF, $x without a map, «» forms) were all within 2 tokens of tested inputs.",
        "Go runtime, jig/scanner (external module, explored but not repairable here); inputs above the bound or outside the alphabets; a hang is judged by a 20 s per-case watchdog.",
        "DESIGN.md §4 C05"),
}
NOT_YET={}
checks=[]
for pid,(tech,text,note,ref) in CLAIMED.items():
    checks.append({
      "property_id":pid,
      "quick_cmd":f"/verif/run.sh {pid} quick",
      "thorough_cmd":f"/verif/run.sh {pid} thorough",
      "evidence_file":f"/verif/evidence/{pid}.json",
      "replay_cmd_template":f"/verif/run.sh {pid} --replay {{path}}",
      "engine":"vcheck",
      "level_claimed":{"category":"model_checking","text":text,"design_ref":ref},
      "level_note":note,
      "technique":tech})
na=[{"property_id":p,"reason":NOT_YET.get(p,"check not built yet in this round (planned: bounded exhaustive exploration, see DESIGN.md §4); not claimed until it runs clean")} for p in props if p not in CLAIMED]
m={"version":1,
 "setup_cmd":"/verif/setup.sh",
 "hooks":{"guard":"verif","enable":"go build -tags verif -overlay /verif/.work/overlay/overlay.json (done by /verif/build.sh on every check run)",
          "baseline_off_cmd":"/verif/baseline.sh","source_commits":[l.strip() for l in open('/verif/hooks_commits.txt') if l.strip()] if __import__('os').path.exists('/verif/hooks_commits.txt') else [],"add_only":True},
 "engines":[{"name":"vcheck","path":"/verif/harness","serves_properties":sorted(CLAIMED),"kind_free_text":"hand-written bounded exhaustive explorer: index-addressable case spaces sharded over worker subprocesses (crash/hang of a worker is attributed to the running case), controlled scheduler + iterative-context-bounding DFS for interleavings, poll-counting virtual clock for cancellation instants, reference models in Go"}],
 "checks":checks,
 "not_applicable":na,
 "notes":"All checks rebuild the harness from /repo's working tree on every run. Exit 0 = held (KNOWN-FINDING lines possible), 1 = VIOLATION, 2 = internal error (never a verdict)."}
json.dump(m,open('/verif/MANIFEST.json','w'),indent=1,ensure_ascii=False)
print("claimed",sorted(CLAIMED))
