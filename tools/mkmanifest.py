#!/usr/bin/env python3
"""Regenerates /verif/MANIFEST.json from the table below (kept in one place so it stays valid)."""
import json
props={json.loads(l)['id']:json.loads(l) for l in open('/verif/properties.jsonl')}
# id -> (technique, level text, level note, design ref)
CLAIMED={

 'C17':("exhaustive enumeration of program layouts (fillers x fault x wrapper paths x delivery x route) with generator-known line numbers",
        "8 faults x every wrapper path of length <=2 over 13 nesting constructs x 6 deliveries (direct, function defined earlier, closure; and through map/apply/swap!) x filler forms/comments/blank lines/multi-line raw strings before and after (430 k programs quick, 3 M thorough), read under a module name as one form and from a file through load-file; when the error carries a position it must name the module, lie within the rows of the top-level form textually containing the fault, and cover the fault's first row.",
        "Errors without a position are not judged; columns are not judged; rows come from the generator's own bookkeeping.",
        "DESIGN.md §4 C17"),
 'C18':("exhaustive enumeration of programs x all stepper command scripts up to length 3/4 (cyclic), differential against the stepper-free run, stepping flags observed through a test-only export",
        "23 k (quick) / 128 k (thorough) programs from the C01, C03 and C12 grammars (extended with effects that read variables) are each run on the real EVAL without a stepper and under all 84 (quick) / 340 (thorough) command scripts over {noop,next,in,out}: result, error payload and effect trace must be identical, and every (t! sym) form handed to the callback must resolve, in the scope handed along, to the effect that follows. 2 M / 43 M stepped runs; the (flag state x command) pairs reached are listed in the evidence.",
        "Output printed by 'next' is not an effect; recursion is bounded; flags are process-wide, so workers are single-threaded.",
        "DESIGN.md §4 C18"),
 'C19':("exhaustive enumeration of programs x layouts x delivery routes, differential against the cursor-free AST",
        "Every sequence of 2 (quick, 32 k) / 2-3 (thorough) top-level forms of weight <=2 is rendered in 8 layouts (single line, form per line, comments between all tokens, blank lines, CRLF, no final newline, trailing comment without newline, tabs + leading comment) and delivered through 6 routes (READ with module, READ with nil cursor, READ(PRINT(ast)), forms one by one through REPL, load-file from a file, all against the cursor-free AST built from Go); result, error payload, effect trace and final bindings must agree. 1.3 M evaluations quick.",
        "load-file is compared on error/trace/bindings (it returns nil by design); REPL's printed result compared as text.",
        "DESIGN.md §4 C19"),

 'C04':("exhaustive enumeration of malformed and well-formed ASTs (special forms x operand tuples, every bound symbol x argument tuples, one-level nestings) on the real EVAL under recover",
        "11 special-form heads x every operand tuple of length <=3 (quick, 372 k) / <=4 (thorough, 11.9 M) over 32 operand shapes, every one of ~150 symbols bound in the fully loaded environment x every argument tuple of length <=3 over 18 values of every kind (840 k), and 186 k one-level nestings are evaluated under recover; a panic crossing EVAL is a violation keyed by panic site, and every returned error must be catchable by try/catch. Panics need one specific malformed shape each; exhaustive short tuples meet all of them (8 sites found and fixed).",
        "Acyclic ASTs; recursion bounded by a poll-counting context; (panic nil) and run-fn-for excluded; worker stdin /dev/null.",
        "DESIGN.md §4 C04"),
 'C08':("exhaustive enumeration of tail-position nestings x recursion spread, host stack depth probed at every iteration on the real EVAL",
        "Every nesting of depth <=2 (quick, 219 shapes) / <=3 (thorough, 1755 shapes) of the 8 tail-position constructs around the recursive call, spread over 1-3 mutually recursive functions, runs with n = 3, 5, 50 while a Go builtin records runtime.Callers at every iteration: all depths from iteration 2 on must be equal; thorough also completes 20000 iterations under a 1 MiB stack limit (a fatal overflow is attributed to the shape by the supervisor). A negative control (call in non-tail position) must show growth.",
        "Equal depth over 50 consecutive iterations is taken as re-entering the same frame for all n.",
        "DESIGN.md §4 C08"),
 'C20':("exhaustive enumeration of signature shapes x declared bounds x entry points x argument lists against a contract computed from reflect.Type",
        "216 generated signatures (context or not, 0-2 fixed parameters of 5 types, 3 variadic kinds, 4 result shapes) x declared bounds none/(m)/(m,M) x Call/CallOverrideFN = 2800 configurations, each called through EVAL with all 781 argument lists of length <=4 over {nil,int,string,list,vector} (2.2 M calls); the instrumented function records entry, arguments and context marker, compared with the contract computed from its reflect.Type alone; result/returned-error/panic(error)/panic(string) conventions with errors.Is and catchability; names and package paths with and without a dot.",
        "Declared bounds count lisp arguments (per the comments at the call sites in lib/core); inconsistent declarations (bounds below the fixed parameter count) are not generated.",
        "DESIGN.md §4 C20"),

 'C06':("exhaustive enumeration of bounded value and text spaces through the real printer and reader, compared by an independent structural equality",
        "Every string of <=3/<=4 characters over 19 escaping-relevant characters in 7 contexts (plus raw-form variants), every symbol/keyword spelling of <=3 identifier characters, every nested value up to the weight bound and every accepted float-free token text (838 k quick / 25 M thorough) is printed by the real printer and read back by the real reader and by read-string/pr-str; the result must equal the original under the model's own equality.",
        "Valid UTF-8 only; symbol spellings limited to the scanner's one-token identifier rule (transcribed); NUL is a recorded known finding (external scanner).",
        "DESIGN.md §4 C06"),
 'C13':("exhaustive enumeration of builtin x argument tuples and depth-2 compositions against a three-valued abstract collection model",
        "45 builtins x every argument tuple of each documented arity over 23 values (171 k calls) and 1.75 M depth-2 compositions are evaluated through the real EVAL and compared with a model of ordered sequences / string-keyed maps / string sets that says, per input, exact value (with kind), any-order value, must-error, error-or-nil or unspecified. Vectors are passed as literals so they carry the spare capacity real programs have.",
        "The model (internal/model/coll.go) transcribes README + tests/step*.mal; what they leave open is unspecified and accepts any non-panicking outcome; wrong argument counts are not generated.",
        "DESIGN.md §4 C13, Appendix B"),
 'C14':("exhaustive enumeration of all ordered pairs (and class-local triples) of bounded data values against independent structural equality",
        "All ordered pairs over all 486 (quick) / 2969 (thorough, 8.8 M pairs) data values up to the weight bound — with near-misses built in: maps differing only in key set with nil values, same spelling as string/keyword/symbol, ()/[]/nil/false/0/{}/#{} — are compared through the real = with the model's equality, with b also rebuilt along a second construction path; reflexivity, symmetry and transitivity are checked on the implementation's own answers.",
        "Values above the weight bound; keys over three spellings.",
        "DESIGN.md §4 C14"),
 'C15':("exhaustive enumeration of templates x names x value assignments through AddPreamble/READWithPreamble, expected AST computed by substitution on the model ADT",
        "26 source templates (placeholders in code, quoted data, nested collections, map values, reader macros, next to placeholder-looking text in strings, raw strings and comments, undefined names) x name pairs x every assignment of 49 data values (multi-line JSON text, preamble-looking strings, CR/LF, U+029E, nested collections) to one or two names; for every preamble line order the re-read AST must be identical to the template with values substituted, and to Read_str(src, values).",
        "Values are those C06 shows readable; templates do not start with their own ';; $' line.",
        "DESIGN.md §4 C15"),
 'C16':("exhaustive enumeration of well-formed expressions, all token-boundary cuts and closer mutations, judged by an independent bracket-stack recogniser",
        "Every well-formed expression up to the weight bound (55 k quick / 1.6 M thorough) over all four bracket kinds, quote prefix, strings/raw strings/comments containing bracket characters is cut after every token, extended by every closer, has its last closer replaced and a second expression appended; an independent recogniser decides which cuts are completable by closers and the innermost closer; READ's error and the REPL's real multiLine verdict (test-only export via overlay) must match.",
        "Token-boundary cuts only; cuts ending in a prefix macro / odd map / non-string key are outside the property.",
        "DESIGN.md §4 C16"),

 'C01':("exhaustive enumeration of all core-form programs up to a weight bound, each run on the real EVAL and compared with an independent definitional interpreter",
        "All 1.76 M programs of weight <=5 (quick) / 47 M of weight <=6 plus 63 M closure/recursion programs (thorough) over the core special forms are evaluated by the real EVAL in a fresh scope and by a definitional interpreter written from the mal definition; value, error-vs-value, thrown payload, ordered effect trace and final bindings must agree. Small-scope exhaustiveness is the right level: the semantics is compositional and every rule interaction (scope, branch selection, argument order, rest parameters) already occurs within 5-6 nodes.",
        "The definitional interpreter (harness/internal/model/interp.go) is the specification; error messages are not compared; programs above the weight bound are not covered.",
        "DESIGN.md §4 C01"),
 'C02':("explicit-state enumeration of all operation histories up to depth 2/3 on the real builtins, invariant re-checked on every earlier binding after every step",
        "Every type-correct history of 2 (quick) / 3 (thorough, 17 M executions) operations over 42 collection-producing operation kinds, applied to any earlier value starting from 7 seeds chosen for their aliasing hazards (literal vector with spare capacity, reader array, subvec window, registry map), is replayed on a fresh scope of the real interpreter; after each step every earlier binding is re-read and must be unchanged. Aliasing bugs need two derivations from a common ancestor, which depth 2-3 covers exhaustively.",
        "Histories deeper than the bound; operations outside the 42 kinds; canonical printed structure as the notion of 'unchanged'.",
        "DESIGN.md §4 C02"),
 'C03':("exhaustive enumeration of all try/catch/finally nests up to a weight bound against the definitional interpreter",
        "All 224 k (quick) / 2.1 M (thorough) try forms with 0-2 body forms, optional catch and finally clauses, 8 thrown objects (lisp values, Go error), throws from body, called function, macro expansion, Go builtin returning an error, Go builtin panicking with an error or a string, nested try, are run on the real EVAL and on the model; result, thrown payload (ErrorValue), errors.Is for Go errors and the effect trace (exactly-once finally, handler not re-evaluated, catch variable scope) must agree.",
        "Model interpreter as specification; a failing finally body is swallowed (README); nests above the weight bound.",
        "DESIGN.md §4 C03"),
 'C12':("exhaustive enumeration of quasiquote templates and template-built macros against a substitution model and against the implementation's own macroexpand",
        "All 403 k (quick) / 5 M (thorough) quasiquote templates up to the weight bound are compared with substitution computed on the model ADT and with eval of quasiquoteexpand; all macros (fn [p & r] `CT) for code templates CT up to the bound x operand tuples are compared with the model, with evaluating their own macroexpand result (whose head must not be a macro), and with the same body as an ordinary function; plus recursive/nested/library macro families.",
        "Model interpreter as specification; malformed unquote forms and non-sequence splices are out of scope (skipped, counted).",
        "DESIGN.md §4 C12"),
 'C05':("exhaustive enumeration of bounded text spaces against the real reader (explicit-state, every case executed)",
        "Every token sequence (<=4 quick / <=5 thorough over 31 tokens), every byte-fragment sequence and every preamble line sequence within the bound is run through six reader entry points of the code built from /repo under recover and a watchdog. A pass is a coverage statement over the whole bounded space, which is what an 'all inputs' panic/hang property needs; the defects found this way (prefix macro at EOF, $x without a map, «» forms) were all within 2 tokens of tested inputs.",
        "Go runtime, jig/scanner (external module, explored but not repairable here); inputs above the bound or outside the alphabets; a hang is judged by a 20 s per-case watchdog.",
        "DESIGN.md §4 C05"),
}
NOT_YET={}
checks=[]
for pid,(tech,text,note,ref) in CLAIMED.items():
    checks.append({
      "property_id":pid,
      "quick_cmd":f"/verif/run.sh {pid} quick",
      "thorough_cmd":f"/verif/run.sh {pid} thorough",
      "evidence_file":f"/verif/evidence/{pid}.json",
      "replay_cmd_template":f"/verif/run.sh {pid} --replay {{path}}",
      "engine":"vcheck",
      "level_claimed":{"category":"model_checking","text":text,"design_ref":ref},
      "level_note":note,
      "technique":tech})
na=[{"property_id":p,"reason":NOT_YET.get(p,"check not built yet in this round (planned: bounded exhaustive exploration, see DESIGN.md §4); not claimed until it runs clean")} for p in props if p not in CLAIMED]
m={"version":1,
 "setup_cmd":"/verif/setup.sh",
 "hooks":{"guard":"verif","enable":"go build -tags verif -overlay /verif/.work/overlay/overlay.json (done by /verif/build.sh on every check run)",
          "baseline_off_cmd":"/verif/baseline.sh","source_commits":[l.strip() for l in open('/verif/hooks_commits.txt') if l.strip()] if __import__('os').path.exists('/verif/hooks_commits.txt') else [],"add_only":True},
 "engines":[{"name":"vcheck","path":"/verif/harness","serves_properties":sorted(CLAIMED),"kind_free_text":"hand-written bounded exhaustive explorer: index-addressable case spaces sharded over worker subprocesses (crash/hang of a worker is attributed to the running case), controlled scheduler + iterative-context-bounding DFS for interleavings, poll-counting virtual clock for cancellation instants, reference models in Go"}],
 "checks":checks,
 "not_applicable":na,
 "notes":"All checks rebuild the harness from /repo's working tree on every run. Exit 0 = held (KNOWN-FINDING lines possible), 1 = VIOLATION, 2 = internal error (never a verdict)."}
json.dump(m,open('/verif/MANIFEST.json','w'),indent=1,ensure_ascii=False)
print("claimed",sorted(CLAIMED))
