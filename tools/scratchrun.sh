#!/bin/bash
# scratchrun.sh <name> <patch.diff|-> <check ids...>
# Runs checks (quick) against a scratch copy of /repo (HEAD + patch) with a scratch copy of /verif,
# leaving /repo and /verif untouched. Prints one line per check. Removes the scratch copies.
set -u
name="$1"; patch="$2"; shift 2
S=/tmp/scratch/$name
rm -rf "$S"; mkdir -p "$S"
git -C /repo worktree add -q --detach "$S/repo" HEAD || exit 2
if [ "$patch" != "-" ]; then
  if ! git -C "$S/repo" apply "$patch"; then echo "scratchrun: patch does not apply"; git -C /repo worktree remove --force "$S/repo"; exit 3; fi
fi
rsync -a --exclude .work --exclude .git --exclude replays --exclude evidence /verif/ "$S/verif/"
export GOFLAGS=-mod=mod GOPROXY=off GOSUMDB=off GOTOOLCHAIN=local
skiprace=1; for id in "$@"; do case $id in C02|C09|C10|C11|C20) skiprace=0;; esac; done
export VERIF_DIR="$S/verif" VERIF_REPO="$S/repo" VERIF_SKIP_RACE_BUILD="${VERIF_SKIP_RACE_BUILD:-$skiprace}"
if [ "${BASELINE:-1}" = 1 ]; then
  b=$(/verif/baseline.sh "$S/repo" 2>&1 | head -1); echo "baseline: $b"
fi
for id in "$@"; do
  out=$(timeout ${TIMEOUT:-1800} "$S/verif/run.sh" "$id" ${TIER:-quick} 2>&1); rc=$?
  [ -n "${SAVE:-}" ] && echo "$out" > "$SAVE.$id"
  v=$(echo "$out" | grep -a -c "^VIOLATION")
  first=$(echo "$out" | grep -a -m1 "signature:" | cut -c1-220)
  echo "check=$id rc=$rc violations=$v $first"
done
git -C /repo worktree remove --force "$S/repo"
rm -rf "$S"
