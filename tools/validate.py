#!/usr/bin/env python3
import json,sys,glob,jsonschema
m=json.load(open('/verif/MANIFEST.json'))
jsonschema.validate(m,json.load(open('/root/.vp/MANIFEST.schema.json')))
es=json.load(open('/root/.vp/EVIDENCE.schema.json'))
props=[json.loads(l)['id'] for l in open('/verif/properties.jsonl')]
claimed=[c['property_id'] for c in m['checks']]
na=[x['property_id'] for x in m.get('not_applicable',[])]
print('claimed',len(claimed),'n/a',len(na),'unaccounted',[p for p in props if p not in claimed and p not in na])
for c in m['checks']:
    f=c['evidence_file']
    try:
        e=json.load(open(f)); jsonschema.validate(e,es)
        print(c['property_id'],'evidence ok',e['tier'],e['coverage'].get('states'),e['coverage'].get('transitions'),'nt',e['coverage'].get('distinct_nontrivial'),'exh',e['coverage'].get('exhaustive'),'viol',e.get('violations'),'wall',e['wall_s'])
    except Exception as ex:
        print(c['property_id'],'EVIDENCE PROBLEM',str(ex)[:200])
