#!/usr/bin/env python3
"""seedtable.py: writes seeded/TABLE.md (rounds 2 to 9 of the independent seeded changes) from the
seeds' notes, the regression matrix seeded/RESULTS.txt and the history notes below, and copies the
history into each seed's meta.json."""
import json, os, re
H = {
 # round 2
 'r2-C02-1': "initially missed at depth 2: concat with an empty FIRST argument was not an operation; added (concat () s [c]) and (apply concat (list (list) s ..))",
 'r2-C02-2': "initially missed by C02 (caught by C13's value model): the damage happens inside one map call; added the keep! oracle (a value handed to user code during an operation must not change later)",
 'r2-C03-1': "caught by C07 (needs a deadline); C03 then got the same nests under a far deadline and catches it too",
 'r2-C03-2': "initially missed: no macro that throws while expanding; added the mx leaf",
 'r2-C04-1': "first caught only by C12; C04 got macros expanding to odd forms (empty list, nil) in its nestings",
 'r2-C04-2': "first caught only by C12; see r2-C04-1",
 'r2-C05-1': "initially missed: module header fragments without final newline were not in the byte alphabet; added",
 'r2-C08-2': "initially missed: let with an empty binding vector / list-form bindings were not tail constructs of the alphabet; added",
 'r2-C09-1': "initially missed: needs three lost races in a row at preemption bound 3; the contended scenario became (1 op || 3 writes) with free yields between operations",
 'r2-C09-2': "initially missed by C09 (caught by C02): added an update function that keeps its rest arguments (atom k) to the atom alphabet",
 'r2-C10-2': "initially missed: needs a caller context that ends while a deref waits and a random select arm; added the cancellable caller context and scheduler-owned select choice",
 'r2-C17-1': "initially missed: no module text starting with blank lines; added the leading-blank-lines route",
 'r2-C18-2': "initially missed: no map/vector literal in tail position under the stepper; added",
 'r2-C20-2': "initially missed: no error-typed parameters / Go error argument in the signature table; added (352 signatures)",
 # round 3
 'r3-C02-1': "initially missed: no swap! that retries with an update function keeping its argument list; added swap-retry-keeps-args",
 'r3-C02-2': "initially missed: closures over the parameters of a self tail call; added the keepfn! oracle (a closure must later return what its captured binding held when it was made)",
 'r3-C04-1': "initially missed: no function value with metadata handed to defmacro / future-call; added the function-values-x-callers family (a panic in a future's goroutine kills the worker and is attributed to the case)",
 'r3-C04-2': "initially missed: no handler re-throwing a caught collection; same family",
 'r3-C07-1': "initially missed: no second deref while another waits; added the two-deref shapes (C10 catches it too through its three-caller plans)",
 'r3-C07-2': "initially missed: cancellation was only tried on contexts without a deadline; added the cancel-under-deadline mode",
 'r3-C08-1': "initially missed: loop functions were only written as (fn ...) in the text; added the definition routes (defn-style macro, position-less AST)",
 'r3-C10-2': "initially missed: C10 had no clock; added the derefs-under-deadlines family on C07's virtual clock (C07's later-deadline oracle catches it as well)",
 'r3-C12-2': "initially missed: every macro call form was evaluated once; added call sites evaluated twice (function body called twice), read from text",
 'r3-C16-1': "initially missed: 'complete expression followed by an open one' had been left unconstrained; now required to be rejected as malformed (the REPL must not keep reading)",
 'r3-C16-2': "initially missed: no read during a read; added the nested-reads family (a Go constructor that calls READ)",
 'r3-C17-1': "initially missed: calls of the faulty function were only bare top-level calls; added callers inside try/finally, bare try, let/do, another function",
 'r3-C18-1': "initially missed: programs were position-less ASTs and only the thrown payload was compared; programs are now read from text under a named cursor and the error's full text is compared",
 'r3-C19-1': "initially missed: no macro programs and no REPL route without a cursor; added both",
 'r3-C19-2': "initially missed: no string with TAB / CR in the programs; added",
 'r3-C20-1': "initially missed: no concurrent calls; added the C20 race pass with a functional cross-check (sampled)",
 'r3-C20-2': "initially missed: no panic / error value that is a Go error wrapping a lisp error; added both modes",
 # round 4
 'r4-C01-2': "initially missed: no function applied through apply; added (apply f (list)) and a zero-parameter closure whose body is a def to the scoping family",
 'r4-C02-1': "initially missed: no closure followed by a shadowing let in tail position of the same frame; added (keepfn! oracle)",
 'r4-C03-1': "initially missed: the far deadline was only an hour away; added fifty years and the year 9999",
 'r4-C03-2': "initially missed: no Go error that wraps a lisp error; added the boomw! builtin",
 'r4-C07-1': "initially missed: the self-expanding macro of the alphabet called list and + while expanding; added macros expanding to their own quoted call (spin, ping/pong)",
 'r4-C09-1': "initially missed: no Go builtin that calls a lisp function back as update function; added callf",
 'r4-C11-1': "initially missed: needs more than 64 macro expansions in flight, out of reach of 3 threads; the race pass got a crowd of 384 (thorough 1024) evaluations compared with their solo results (sampled)",
 'r4-C12-1': "initially missed: macros were only named mac; the same macros are now also defined under the names try and fn",
 'r4-C14-1': "initially missed: no integers above 2^53; added 2^53, 2^53+1, maxint, maxint-1",
 'r4-C16-1': "initially missed: closers were only appended or replaced at the end; every closer is now inserted at every token boundary",
 'r4-C17-1': "initially missed: no route reads the module form by form (the route of that name was a same-line do); added forms-read-one-by-one",
 'r4-C17-2': "initially missed: every text was read under one module name only; added a second read under another name",
 'r4-C19-2': "initially missed: no program whose expansion changes between two evaluations of one call site; added 4",
 'r4-C20-1': "initially missed: no two closures of one function literal; added the closures-of-one-literal family",
 'r4-C20-2': "initially missed: the wrapped lisp error had no position; it has one now",
 # round 5
 'r5-C01-2': "initially missed: no = in the core grammar (programs are read from text, so two occurrences of a symbol carry different positions); added",
 'r5-C02-1': "initially missed: no vector longer than 16 elements that came out of a copying builtin; added seeds of 17 and 33 elements",
 'r5-C02-2': "initially missed and out of reach of enumeration (two futures extending one vector at the same instant, an atomic load followed by a store: no data race, no sequential symptom); C02 got a sampled race pass with a functional cross-check (8 evaluations extending the same 4500 values), which reports it",
 'r5-C03-1': "initially missed: every panicking Go function went through the binder, which recovers; added bare types.Func panics in bodies and handlers under an outer try",
 'r5-C03-2': "initially missed: no panic below a callback; added (apply rawpan! (list))",
 'r5-C04-2': "initially missed: every function value had a source position; added functions made by eval of a constructed form, and calls with wrong argument counts through defmacro / apply / map",
 'r5-C05-1': "initially missed: preambles had at most 3 lines; added chained preambles of up to 96 lines",
 'r5-C07-2': "initially missed by design (work after the instant that needs no poll); added the deep-recursion family with a bound on heap bytes allocated between the instant and EVAL's return (HEAD: <=128 KiB, bound 16 MiB, this change: 180 MB)",
 'r5-C09-2': "initially missed: every operation ran under a context that never ends; added a swap! under a caller context that another thread ends, followed by further use of the atom",
 'r5-C12-2': "initially missed: macro values were never re-bound; added macros re-bound with def / with-meta / ^ and called through the new name",
 'r5-C15-1': "initially missed: no placeholder named MODULE; added",
 'r5-C17-1': "initially missed: the module was always named by the cursor (or by load-file); added a text whose ';; $MODULE' header line is followed by blank lines, read without a cursor",
 'r5-C18-1': "initially missed: programs were tiny; added tail-recursive loops of 3000-4000 iterations under the stepper",
 'r5-C19-2': "initially missed: strings never spanned lines in the text; added the raw-strings-across-line-ends family (LF, CRLF, CRLF inside the string only)",
 'r5-C20-1': "initially missed: no panic with a lisp error; added",
 # round 6 (several additions were made from the authors' summaries while the evaluation of the round was still running;
 # those changes are marked "not reported as built")
 'r6-C01-2': "initially missed: no float in the alphabet; added the literal 1.5 (a float is no integer for + and <)",
 'r6-C02-1': "not reported as built: no error object was ever made from a bound map; added marshal-error-of-map",
 'r6-C03-2': "initially missed: no swap! in the try programs; added 4 fixed programs whose update function changes the atom and then throws",
 'r6-C05-1': "initially missed: placeholder values were ints; added Go-built list / vector / symbol values (no source position)",
 'r6-C06-2': "not reported as built: no non-ASCII digit among the identifier characters; added",
 'r6-C07-1': "not reported as built: on the virtual clock a deadline and its signal coincide; added a mode in which the context reports its deadline 20 polls before Done is signalled",
 'r6-C08-1': "not reported as built: C08 never had a stepper; every 7th case now runs a stepper session that ends in a step-out before its loops",
 'r6-C08-2': "not reported as built: a fully unquoted quasiquote was not among the tail constructs; added",
 'r6-C09-1': "initially missed: 32 lost rounds in a row are far beyond the preemption bound; added the directed forty-lost-rounds schedule (one execution per swap! kind, scheduler policy hook)",
 'r6-C09-2': "initially missed: atoms only held ints; added atom w holding a list / vector (reset! to either, swap! conj, deref)",
 'r6-C14-1': "not reported as built: = was only evaluated under a context that never ends; deeply nested equal values are now also compared under contexts ending at polls 2..12 (true or a timeout error, never false)",
 'r6-C15-2': "not reported as built: no template started with a ';; $MODULE' header line; added",
 'r6-C16-1': "not reported as built: expressions had at most a dozen tokens; added the long-expressions family (63..4097 tokens)",
 'r6-C16-2': "initially missed: « » was not among the bracket kinds; added cut texts containing a constructor form",
 'r6-C17-2': "not reported as built: pipelines were single macros; added a pipeline inside a pipeline",
 'r6-C18-1': "initially missed: no bare panic below a call form with a handler that looks at what it caught; added 3 fixed programs",
 'r6-C19-1': "not reported as built: no unquote of a deref in a template; added",
 'r6-C19-2': "not reported as built: no future that is the value of a top-level form; added",
 # round 7 (nothing was added before the round had been evaluated as built)
 'r7-C01-2': "initially missed: no vector or map literal in the core grammar; added the literals-in-bodies family (literals as statements of do / let / fn bodies)",
 'r7-C02-2': "initially missed: no handler whose catch symbol has the name of a binding of the same frame; added two operations (global frame, let frame with a closure made before)",
 'r7-C03-2': "initially missed: every catch binder was a symbol; added the catch-binders-that-are-no-symbol family (finally logs exactly once whatever the binder)",
 'r7-C04-1': "initially missed: no vector headed by catch / finally / unquote among the operand shapes; added",
 'r7-C04-2': "the same change as r7-C11-1 (a data race that ends in a runtime fatal error, which no recover sees): out of reach of C04's single-threaded enumeration, reported by C11's free-running race pass (sampled)",
 'r7-C05-2': "initially missed: no empty string among the tokens; added",
 'r7-C07-1': "initially missed: no text in constructor notation read at run time; added two shapes (new-nap bound to sleep at the root)",
 'r7-C07-2': "initially missed: no future cancelled by the program and dereferenced afterwards; added three shapes",
 'r7-C11-2': "initially missed: no macro redefined while another thread expands a call of it; added the two programs (explored under the scheduler, in pairs)",
 'r7-C15-1': "initially missed: no % in the values; added",
 'r7-C15-2': "initially missed: no map key / set element with TAB, CR, DEL or a non-printing character among the values (C06 had them); added, with the empty key",
 'r7-C19-2': "initially missed: no argument failing inside a special form under a handler; added a grammar leaf and a fixed program looking at what the handler receives",
 'r7-C20-2': "initially missed: a panic with a value that is no error was only required to be catchable; added panic(int) and panic(lisp vector), and the value must still be carried by the error",
 # round 8 (as round 7: evaluated as built first)
 'r8-C01-1': "initially missed by C01 (C02's closures-over-loop-parameters reports the same mechanism): no loop whose iterations let their scope escape; added the loops-whose-scopes-escape family",
 'r8-C02-1': "initially missed: no code held as data and then evaluated; added two operations (quoted and list-built code with macro calls in operand position, kept with keep! and evaluated twice)",
 'r8-C03-2': "a change to Future.Deref (a deref that already waits is never woken): needs two derefs of one future waiting at once, which C03's sequential nests cannot produce; reported by C10 (free-running bodies block forever; its three-caller plans)",
 'r8-C07-2': "initially missed: every swap! of the shapes won its first round; added a swap! whose update function makes its own round stale (the change sleeps between rounds without looking at the context: reported as a hang on the virtual clock)",
 'r8-C08-1': "initially missed: every loop function had the parameter list [n]; added functions with a rest parameter (called with extra arguments) and functions whose only parameter is a rest parameter",
 'r8-C11-2': "initially missed and out of reach of the cooperative scheduler (the window lies between two statements without a synchronisation operation): the race pass got 8 evaluations dereferencing one completed future 3000 times each, compared with their solo results (sampled)",
 'r8-C14-2': "initially missed: values were built from Go (no source positions); every pair is now also written as two quoted literals in a program text read under a module name",
 'r8-C15-2': "initially missed: values were at most a few hundred bytes; added the long-values family (printed lengths from 1000 bytes to 1 MiB, several around 64 KiB)",
 'r8-C17-2': "initially missed: thrown values were strings; added a thrown datum written in another top-level form and one written on the lines after the throw",
 'r8-C18-2': "initially missed: no program used the macroexpand form; added 3 fixed programs whose expansions are asked for and not evaluated (the callback's (t! sym) expectation then fails)",
 'r8-C19-1': "initially missed: no macro whose expansion carries a list with metadata; added a fixed program",
 'r8-C19-2': "caught as built (the evaluator script could not place the demonstration, which lives in lib/core/nscore; confirmed after the script was corrected)",
 'r8-C20-1': "initially missed: no panic raised by the Go runtime itself; added (errors.As must still find the runtime.Error)",
 'r8-C20-2': "initially missed: every call was made under a live context; the first legal call of every signature is now repeated directly on the registered function value under a context that has already ended",
 # round 9 (20 sub-agents, one change each and a second where time allowed: 26 changes, 24 kept; the additions for C08 and C14
 # were made from the authors' summaries while the evaluation of the round was still running)
 'r9-C03-1': "initially missed: every try form was read from text (each with its own position); added all ordered pairs of try forms side by side in a position-less AST, and 5 fixed programs whose try forms are built at run time (macro templates, list/cons + eval)",
 'r9-C04-1': "an unlocked read of the global scope in macro detection, racing with a def made by a future: ends in a runtime fatal error that no recover sees; C04 enumerates single-threaded programs, C11's free-running race pass reports it (as r7-C04-2)",
 'r9-C08-1': "missed as built (every loop ran under context.Background()); added four more kinds of context (cancellable, far deadline, cancellable child of a deadline, carrying a value); addition made from the author's summary",
 'r9-C09-1': "initially missed: the window lies between the unlock and an atomic store, and sync/atomic operations were no scheduling points; added the shim vatomic (import rewritten by the overlay): every atomic operation is preceded by a scheduling point; the linearizability check then reports it at preemption bound 2",
 'r9-C10-1': "initially missed: the oracle was a list of real-time rules, none of which relates a cancel to status reads that overlap it; added a brute-force linearizability check of done? / cancelled? / cancel against the sequential future status (reported on T0: cancel || T1: done? cancelled? with a returning body)",
 'r9-C14-1': "missed as built (every pair was two separately written literals); added the values-made-by-one-literal family; addition made from the author's summary",
 'r9-C15-1': "initially missed: every case was one read, and the undefined placeholder had a name no case ever defined; added every sequence of 3 transports read one after the other, each with its own assignment",
 'r9-C17-1': "initially missed: the undefined symbol's name occurred nowhere else in the text; added a filler form that uses the fault's names and literals legally (a parameter of that name, the same forms quoted)",
 'r9-C18-1': "initially missed: no evaluation under a context that ends; added 8 fixed programs x 3 contexts (cancelled, deadline passed, ended by the program itself) x every script",
 'r9-C19-1': "initially missed: no program compared functions; added a fixed program comparing functions and macros with = (directly and inside collections)",
 'r9-C20-2': "initially missed: the context was live or had ended before the call, never ended during it; the error modes are repeated with the evaluation's context ending while the bound function runs",
 # round 10 (six sub-agents, one change each, in the last half hour)
 'r10-C02-1': "initially missed: no map held an empty map as a value; added the operation (assoc m :n {} ...), after which (assoc-in m [:n :o] c) must build a new inner map",
}
res = {}
for l in open('/verif/seeded/RESULTS.txt'):
    n = l.split(' | ')[0].strip()
    res[n] = [m.group(1) for m in re.finditer(r'\| (C\d\d) rc=1', l)]
out = []
for rnd in ('r2', 'r3', 'r4', 'r5', 'r6', 'r7', 'r8', 'r9', 'r10'):
    out.append(f"\n**Round {rnd[1:]}**\n\n| seed | what it does (first line of the author's notes) | reported by (own-property quick check, regression matrix) | history |\n|---|---|---|---|")
    for d in sorted(os.listdir('/verif/seeded')):
        if not d.startswith(rnd + '-'): continue
        notes = open(f'/verif/seeded/{d}/notes.md').read().splitlines()[0].lstrip('# ').strip()
        notes = re.sub(r'^C\d\d[ /]*(seeded )?(change|seed) \d+\s*[—:-]+\s*', '', notes).replace('|', '/')
        h = H.get(d, "caught as built")
        out.append(f"| {d} | {notes[:160]} | {', '.join(res.get(d, [])) or '-'} | {h} |")
        mp = f'/verif/seeded/{d}/meta.json'
        m = json.load(open(mp)); m['history'] = h; m['reported_by_matrix'] = res.get(d, [])
        json.dump(m, open(mp, 'w'), indent=1, ensure_ascii=False)
open('/verif/seeded/TABLE.md', 'w').write("\n".join(out) + "\n")
print("rows", sum(1 for l in out if l.startswith('| r')))
