#!/bin/bash
# seedrun.sh <patch.diff> <check-id> [more check ids...]
# Applies a seeded change to /repo, runs the given checks (quick), reverts /repo. Prints one line per check.
set -u
patch="$1"; shift
cd /repo || exit 2
if ! git diff --quiet; then echo "seedrun: /repo is dirty, refusing"; exit 2; fi
if ! git apply --check "$patch" 2>/dev/null; then echo "seedrun: patch does not apply: $patch"; exit 3; fi
git apply "$patch"
trap 'git -C /repo checkout -- . ; git -C /repo clean -fdq -- . 2>/dev/null' EXIT
export GOFLAGS=-mod=mod GOPROXY=off GOSUMDB=off GOTOOLCHAIN=local
if ! go build ./... 2>/tmp/seedrun.build; then echo "seedrun: does not build"; cat /tmp/seedrun.build | head; exit 4; fi
for id in "$@"; do
  out=$(timeout 1500 /verif/run.sh "$id" quick 2>&1); rc=$?
  v=$(echo "$out" | grep -a -c "^VIOLATION")
  first=$(echo "$out" | grep -a -m1 "signature:" | cut -c1-200)
  echo "check=$id rc=$rc violations=$v $first"
done
