#!/bin/bash
# seedround.sh <round> <ID> [checks…]: evaluates both changes of one sub-agent (seedeval.py), appending to /tmp/seed<round>/eval.log
r=$1; id=$2; shift 2
cd /verif
for n in 1 2; do
  [ -f /tmp/seed$r/$id.out/$n/patch.diff ] || { echo "=== $id $n: no patch" >> /tmp/seed$r/eval.log; continue; }
  out=$(ROUND=$r python3 tools/seedeval.py $id $n "${@:-$id}" 2>&1 | tail -4)
  { echo "=== $id $n"; echo "$out"; } >> /tmp/seed$r/eval.log
done
