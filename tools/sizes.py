#!/usr/bin/env python3
"""sizes.py: prints the DESIGN.md 10.2 table (quick-tier sizes) from /verif/evidence/*.json."""
import json
def n(x): return f"{x:,}".replace(",", " ")
print("| id | cases | executions | non-trivial | wall | families (size) |")
print("|----|------:|-----------:|------------:|-----:|-----------------|")
for i in range(1, 21):
    d = json.load(open(f'/verif/evidence/C{i:02d}.json'))
    c = d['coverage']
    fams = "; ".join(f"{f['family']} {n(f['size'])}" for f in c['families'])
    cases = sum(f['cases_run'] for f in c['families'])
    rp = d.get('race_pass') or c.get('race_pass')
    print(f"| C{i:02d} | {n(cases)} | {n(c['evaluations'])} | {n(c['distinct_nontrivial'])} | {d['wall_s']} s | {fams} |")
