#!/bin/bash
# evaluates every seed under /tmp/seed/*/OUT/* that has not been evaluated yet
declare -A REL=( [C01]="C01" [C02]="C02 C13" [C03]="C03 C07" [C04]="C04" [C05]="C05 C15" [C06]="C06 C15" [C07]="C07" [C08]="C08" [C09]="C09" [C10]="C10" [C11]="C11" [C12]="C12 C02" [C13]="C13 C02" [C14]="C14" [C15]="C15 C06" [C16]="C16" [C17]="C17" [C18]="C18" [C19]="C19" [C20]="C20" )
for d in /tmp/seed/C*/OUT/*/; do
  id=$(echo $d | cut -d/ -f4); n=$(basename $d)
  [ -f "$d/patch.diff" ] || continue
  [ -f "/verif/seeded/$id-$n/meta.json" ] && [ "${FORCE:-0}" != 1 ] && continue
  echo "=== $id $n"
  python3 /verif/tools/seedeval.py $id $n ${REL[$id]} 2>&1 | tail -5 | cut -c1-300
done
