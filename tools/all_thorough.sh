#!/bin/bash
# runs every check's thorough tier, printing one summary line per check
cd "$(dirname "$0")/.."
for c in C01 C02 C03 C04 C05 C06 C07 C08 C09 C10 C11 C12 C13 C14 C15 C16 C17 C18 C19 C20; do
  s=$(date +%s)
  out=$(./run.sh $c thorough 2>&1); rc=$?
  e=$(date +%s)
  echo "== $c rc=$rc $((e-s))s violations=$(echo "$out" | grep -a -c '^VIOLATION') known=$(echo "$out" | grep -a -c '^KNOWN-FINDING')"
  echo "$out" | grep -a "family\|race pass\|INTERNAL\|signature" | cut -c1-220
done
