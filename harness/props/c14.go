package props

import (
	"context"
	"fmt"
	"math"
	"strings"

	lisp "github.com/jig/lisp"
	envpkg "github.com/jig/lisp/env"
	"github.com/jig/lisp/types"

	"verifharness/internal/enum"
	"verifharness/internal/lx"
	"verifharness/internal/model"
	"verifharness/internal/vclock"
	"verifharness/internal/vf"
)

func c14Grammar(maxW int) *enum.Grammar {
	const VAL, KEY = 0, 1
	keys := []enum.Prod{leaf(`"a"`, model.Str("a")), leaf(":a", model.Kw("a")), leaf(":b", model.Kw("b"))}
	vals := []enum.Prod{
		leaf("nil", model.Nil), leaf("false", model.Bool(false)), leaf("true", model.Bool(true)),
		leaf("0", model.Int(0)), leaf("1", model.Int(1)),
		// neighbours above 2^53 (not distinguishable as float64) and at the end of the int64 range
		leaf("2^53", model.Int(9007199254740992)), leaf("2^53+1", model.Int(9007199254740993)), leaf("max", model.Int(math.MaxInt64)), leaf("max-1", model.Int(math.MaxInt64-1)),
		leaf(`""`, model.Str("")), leaf(`"a"`, model.Str("a")), leaf(":a", model.Kw("a")), leaf("'a", sym("a")),
		leaf("()", model.List()), leaf("[]", model.Vec()), leaf("{}", model.MapOf()), leaf("#{}", model.SetOf()),
	}
	for n := 1; n <= 2; n++ {
		kids := make([]int, n)
		vals = append(vals,
			enum.Prod{Name: fmt.Sprintf("list%d", n), Weight: 1, Kids: kids, Build: func(k []V) V { return model.List(append([]V{}, k...)...) }},
			enum.Prod{Name: fmt.Sprintf("vec%d", n), Weight: 1, Kids: kids, Build: func(k []V) V { return model.Vec(append([]V{}, k...)...) }},
		)
	}
	key := func(v V) model.Key { k, _ := v.AsKey(); return k }
	vals = append(vals,
		enum.Prod{Name: "map1", Weight: 1, Kids: []int{KEY, VAL}, Build: func(k []V) V { return model.MapOf(model.MapEntry{K: key(k[0]), V: k[1]}) }},
		enum.Prod{Name: "map2", Weight: 1, Kids: []int{KEY, VAL, KEY, VAL}, Build: func(k []V) V {
			return model.MapOf(model.MapEntry{K: key(k[0]), V: k[1]}, model.MapEntry{K: key(k[2]), V: k[3]})
		}},
		enum.Prod{Name: "set1", Weight: 1, Kids: []int{KEY}, Build: func(k []V) V { return model.SetOf(key(k[0])) }},
		enum.Prod{Name: "set2", Weight: 1, Kids: []int{KEY, KEY}, Build: func(k []V) V { return model.SetOf(key(k[0]), key(k[1])) }},
	)
	return enum.New([][]enum.Prod{vals, keys}, maxW)
}

func q(x types.MalType) types.MalType {
	return types.List{Val: []types.MalType{types.Symbol{Val: "quote"}, x}}
}
func callForm(f string, a ...types.MalType) types.MalType {
	return types.List{Val: append([]types.MalType{types.Symbol{Val: f}}, a...)}
}

// construct returns an expression that builds v with builtins along a second path:
// maps by assoc in reverse key order from an empty hash-map, sets by conj in reverse
// order, vectors by vec of a list, lists by the list builtin.
func construct(v V) types.MalType {
	switch v.K {
	case model.KList:
		args := make([]types.MalType, len(v.Elems))
		for i, e := range v.Elems {
			args[i] = construct(e)
		}
		return callForm("list", args...)
	case model.KVec:
		args := make([]types.MalType, len(v.Elems))
		for i, e := range v.Elems {
			args[i] = construct(e)
		}
		return callForm("vec", callForm("list", args...))
	case model.KMap:
		var expr types.MalType = callForm("hash-map")
		for i := len(v.Ents) - 1; i >= 0; i-- {
			expr = callForm("assoc", expr, v.Ents[i].K.Impl(), construct(v.Ents[i].V))
		}
		return expr
	case model.KSet:
		var expr types.MalType = callForm("set", nil)
		for i := len(v.Ents) - 1; i >= 0; i-- {
			expr = callForm("conj", expr, v.Ents[i].K.Impl())
		}
		return expr
	default:
		return q(model.ToImpl(v))
	}
}

func init() {
	vf.Register("C14", func() *vf.Check {
		var tier string
		var env types.EnvType
		var g *enum.Grammar
		var values []V
		var impls []types.MalType
		wOf := func() int {
			if tier == "thorough" {
				return 4
			}
			return 3
		}
		valuesOf := func() []V {
			if values == nil {
				g = c14Grammar(wOf())
				n := g.Count(0, wOf())
				if tier != "thorough" {
					// quick: all of weight<=2 plus every 7th value of weight 3 would not be exhaustive; stay at the bound
				}
				for i := int64(0); i < n; i++ {
					v := g.Unrank(0, i)
					values = append(values, v)
					impls = append(impls, model.ToImpl(v))
				}
			}
			return values
		}
		eq := func(a, b types.MalType, r *vf.Rec) (bool, string) {
			res, err, p := lx.Eval(context.Background(), callForm("=", a, b), env)
			r.Exec(1)
			if p != nil {
				return false, "panic: " + p.String()
			}
			if err != nil {
				return false, "error: " + err.Error()
			}
			b2, ok := res.(bool)
			if !ok {
				return false, fmt.Sprintf("non-boolean result %v", res)
			}
			return b2, ""
		}
		kindName := func(v V) string {
			return [...]string{"nil", "bool", "int", "string", "keyword", "symbol", "list", "vector", "map", "set", "fn", "opaque"}[v.K]
		}
		pairs := &vf.Family{
			Name:   "ordered-pairs",
			Bounds: "all ordered pairs (a, b) over all data values of weight <=3 (quick) / <=4 (thorough): 17 atoms/empty collections (nil false true 0 1 2^53 2^53+1 maxint maxint-1 \"\" \"a\" :a 'a () [] {} #{}), lists/vectors of 1-2, maps of 1-2 entries and sets of 1-2 members over keys {\"a\" :a :b}; b also built along a second construction path (assoc/conj in reverse order, vec of list), and both written as quoted literals in a program text read under a module name",
			Setup:  func(t string) { tier = t; env = lx.NewCoreEnv() },
			N:      func(t string) int64 { tier = t; n := int64(len(valuesOf())); return n * n },
			Describe: func(i int64) string {
				n := int64(len(valuesOf()))
				return fmt.Sprintf("(= %s %s)", values[i/n].Lisp(), values[i%n].Lisp())
			},
			Run: func(i int64, r *vf.Rec) {
				n := int64(len(valuesOf()))
				a, b := values[i/n], values[i%n]
				want := model.Equal(a, b)
				if want || a.K == b.K || (a.IsSeq() && b.IsSeq()) {
					r.NT()
				}
				sig := func(what string) string {
					return fmt.Sprintf("%s on (%s, %s)", what, kindName(a), kindName(b))
				}
				got, msg := eq(q(impls[i/n]), q(impls[i%n]), r)
				if msg != "" {
					r.Violation(sig("= fails"), msg)
					return
				}
				if got != want {
					r.Violation(sig("= disagrees with structural equality"), fmt.Sprintf("expected %v got %v", want, got))
					return
				}
				// second construction path for b
				got2, msg := eq(q(impls[i/n]), construct(b), r)
				if msg != "" {
					r.Violation(sig("= fails on constructed value"), msg)
					return
				}
				if got2 != want {
					r.Violation(sig("= depends on the construction path"), fmt.Sprintf("expected %v got %v for b built as %s", want, got2, model.FromImpl(construct(b)).Lisp()))
					return
				}
				// third path: both values written in a program text (every token then carries its own position)
				text := fmt.Sprintf("(= (quote %s)\n   (quote %s))", a.Lisp(), b.Lisp())
				ast, rerr := lisp.READ(text, types.NewCursorFile("c14"), nil)
				if rerr != nil {
					r.Violation("harness: comparison text does not read", text+": "+rerr.Error())
					return
				}
				res3, err3, p3 := lx.Eval(context.Background(), ast, env)
				r.Exec(1)
				if p3 != nil || err3 != nil {
					r.Violation(sig("= fails on values read from text"), fmt.Sprint(text, ": ", err3, p3))
					return
				}
				if got3, _ := res3.(bool); got3 != want {
					r.Violation(sig("= depends on where the values were written in the text"), fmt.Sprintf("%s: expected %v got %v", text, want, res3))
				}
			},
		}
		// explicit equivalence-relation check on triples within and around each =-class
		triples := &vf.Family{
			Name:     "transitivity-triples",
			Bounds:   "for every value a: all b, c among the values that = reports equal to a or to each other's neighbours (the implementation's own classes), checking reflexivity, symmetry and transitivity directly on the implementation's answers",
			Setup:    func(t string) { tier = t; env = lx.NewCoreEnv() },
			N:        func(t string) int64 { tier = t; return int64(len(valuesOf())) },
			Describe: func(i int64) string { return "class of " + valuesOf()[i].Lisp() },
			Run: func(i int64, r *vf.Rec) {
				vs := valuesOf()
				a := impls[i]
				if ok, msg := eq(q(a), q(a), r); !ok {
					r.Violation("= is not reflexive on "+kindName(vs[i]), msg)
					return
				}
				var cls []int
				for j := range vs {
					ab, _ := eq(q(a), q(impls[j]), r)
					ba, _ := eq(q(impls[j]), q(a), r)
					if ab != ba {
						r.Violation(fmt.Sprintf("= is not symmetric on (%s, %s)", kindName(vs[i]), kindName(vs[j])), fmt.Sprintf("(= %s %s)=%v but reversed=%v", vs[i].Lisp(), vs[j].Lisp(), ab, ba))
						return
					}
					if ab {
						cls = append(cls, j)
					}
				}
				if len(cls) > 1 {
					r.NT()
				}
				// transitivity: every b = a and every c: (b = c) must equal (a = c)
				for _, b := range cls {
					for c := range vs {
						bc, _ := eq(q(impls[b]), q(impls[c]), r)
						ac, _ := eq(q(a), q(impls[c]), r)
						if bc != ac {
							r.Violation(fmt.Sprintf("= is not transitive around (%s, %s, %s)", kindName(vs[i]), kindName(vs[b]), kindName(vs[c])),
								fmt.Sprintf("a=%s b=%s c=%s: (= a b) true, (= b c)=%v, (= a c)=%v", vs[i].Lisp(), vs[b].Lisp(), vs[c].Lisp(), bc, ac))
							return
						}
					}
				}
			},
		}
		// values derived from one common ancestor (sharing its backing array): equality must
		// look at length and elements, never at storage identity
		type derive struct {
			text string
			f    func(el []V, isVec bool) (V, bool)
		}
		sub := func(el []V, a, b int) []V { return append([]V{}, el[a:b]...) }
		var derives []derive
		derives = append(derives, derive{"v", func(el []V, isVec bool) (V, bool) {
			if isVec {
				return model.Vec(el...), true
			}
			return model.List(el...), true
		}})
		for k := 0; k <= 3; k++ {
			k := k
			derives = append(derives,
				derive{fmt.Sprintf("(subvec v 0 %d)", k), func(el []V, isVec bool) (V, bool) {
					if !isVec || k > len(el) {
						return V{}, false
					}
					return model.Vec(sub(el, 0, k)...), true
				}},
				derive{fmt.Sprintf("(subvec v %d)", k), func(el []V, isVec bool) (V, bool) {
					if !isVec || k > len(el) {
						return V{}, false
					}
					return model.Vec(sub(el, k, len(el))...), true
				}},
				derive{fmt.Sprintf("(take %d v)", k), func(el []V, isVec bool) (V, bool) {
					n := k
					if n > len(el) {
						n = len(el)
					}
					return model.List(sub(el, 0, n)...), true
				}},
				derive{fmt.Sprintf("(drop %d v)", k), func(el []V, isVec bool) (V, bool) {
					n := k
					if n > len(el) {
						n = len(el)
					}
					return model.List(sub(el, n, len(el))...), true
				}},
			)
		}
		derives = append(derives,
			derive{"(rest v)", func(el []V, isVec bool) (V, bool) {
				if len(el) == 0 {
					return model.List(), true
				}
				return model.List(sub(el, 1, len(el))...), true
			}},
			derive{"(rest (rest v))", func(el []V, isVec bool) (V, bool) {
				if len(el) <= 1 {
					return model.List(), true
				}
				return model.List(sub(el, 2, len(el))...), true
			}},
			derive{"(seq v)", func(el []V, isVec bool) (V, bool) {
				if len(el) == 0 {
					return model.Nil, true
				}
				return model.List(sub(el, 0, len(el))...), true
			}},
			derive{"(vec v)", func(el []V, isVec bool) (V, bool) { return model.Vec(sub(el, 0, len(el))...), true }},
			derive{"(with-meta v {:m 1})", func(el []V, isVec bool) (V, bool) {
				if isVec {
					return model.Vec(el...), true
				}
				return model.List(el...), true
			}},
			derive{"(conj v 1)", func(el []V, isVec bool) (V, bool) {
				if isVec {
					return model.Vec(append(sub(el, 0, len(el)), model.Int(1))...), true
				}
				return model.List(append([]V{model.Int(1)}, el...)...), true
			}},
			derive{"(concat v)", func(el []V, isVec bool) (V, bool) { return model.List(sub(el, 0, len(el))...), true }},
		)
		bases := []V{
			model.Vec(model.Int(1), model.Int(2), model.Int(3)), model.Vec(model.Int(1), model.Int(1), model.Int(1)),
			model.Vec(model.Vec(model.Int(1)), model.Vec(model.Int(1)), model.Int(1)), model.Vec(model.Int(1)), model.Vec(),
			model.List(model.Int(1), model.Int(2), model.Int(3)), model.List(model.Int(1), model.Int(1), model.Int(1)), model.List(),
			model.Vec(model.Nil, model.Nil), model.Vec(model.Int(1), model.Int(2), model.Int(3), model.Int(4), model.Int(5)),
		}
		nd := int64(len(derives))
		// deeply nested values: equality is structural at every depth
		deepDepths := []int{10, 999, 1000, 1001, 1500, 4000}
		deepKinds := []string{"list", "vector", "map"}
		mkDeep := func(kind string, depth int, leafV types.MalType) types.MalType {
			var v types.MalType = leafV
			for i := 0; i < depth; i++ {
				switch kind {
				case "list":
					v = types.List{Val: []types.MalType{v}}
				case "vector":
					v = types.Vector{Val: []types.MalType{i, v}}
				default:
					v = types.HashMap{Val: map[string]types.MalType{"k": v}}
				}
			}
			return v
		}
		deep := &vf.Family{
			Name: "deeply-nested-values", InProc: true,
			Bounds:   fmt.Sprintf("values nested %v levels deep (lists, vectors, maps): a value against itself, against a separately built copy, a list chain against the matching vector chain, and against a copy whose innermost element differs", deepDepths),
			Setup:    func(t string) { tier = t; env = lx.NewFullEnv() },
			N:        func(string) int64 { return int64(len(deepDepths) * len(deepKinds)) },
			Describe: func(i int64) string { return fmt.Sprintf("%s nested %d deep", deepKinds[i%3], deepDepths[i/3]) },
			Run: func(i int64, r *vf.Rec) {
				kind, d := deepKinds[i%3], deepDepths[i/3]
				r.NT()
				a, b, c := mkDeep(kind, d, 1), mkDeep(kind, d, 1), mkDeep(kind, d, 2)
				q := func(v types.MalType) types.MalType {
					return types.List{Val: []types.MalType{types.Symbol{Val: "quote"}, v}}
				}
				check := func(what string, x, y types.MalType, want bool) {
					got, why := eq(q(x), q(y), r)
					if why != "" {
						r.Violation("= fails on deeply nested values", fmt.Sprintf("%s nested %d deep, %s: %s", kind, d, what, oneLineC14(why)))
						return
					}
					if got != want {
						r.Violation("= disagrees with structural equality on deeply nested values", fmt.Sprintf("%s nested %d deep, %s: got %v, want %v", kind, d, what, got, want))
					}
				}
				// under a context that ends while = is comparing: the evaluation returns true or a timeout
				// error, never false
				if d >= 1500 {
					for _, limit := range []int{2, 3, 4, 5, 6, 8, 12} {
						res, err, p := lx.Eval(vclock.NewPollCtx(limit), callForm("=", q(a), q(b)), env)
						r.Exec(1)
						if p != nil {
							r.Violation("= panics under a context that ends", fmt.Sprintf("%s nested %d deep, context ending at poll %d: %s", kind, d, limit, oneLineC14(p.String())))
						} else if err == nil && res != true {
							r.Violation("= of equal values is not true under a context that ends (and no error is returned)", fmt.Sprintf("%s nested %d deep, context ending at poll %d: result %v", kind, d, limit, res))
						}
					}
				}
				check("a value against itself", a, a, true)
				check("a value against a separately built copy", a, b, true)
				check("a value against a copy whose innermost element differs", a, c, false)
				if kind == "list" {
					// the same chain built of one-element vectors
					var v types.MalType = 1
					for k := 0; k < d; k++ {
						v = types.Vector{Val: []types.MalType{v}}
					}
					check("a list chain against the matching vector chain", a, v, true)
					check("the vector chain against the list chain", v, a, true)
				}
			},
		}
		derived := &vf.Family{
			Name:   "derived-from-common-ancestor",
			Bounds: fmt.Sprintf("%d base sequences (vectors as literals with spare capacity, lists; equal, repeated and nested elements) x all ordered pairs of %d derivations of the same base (subvec windows, take/drop, rest, seq, vec, with-meta, conj, concat)", len(bases), len(derives)),
			Setup:  func(t string) { tier = t; env = lx.NewCoreEnv() },
			N:      func(t string) int64 { return int64(len(bases)) * nd * nd },
			Describe: func(i int64) string {
				b := bases[i/(nd*nd)]
				return fmt.Sprintf("(let [v %s] (= %s %s))", b.Lisp(), derives[(i/nd)%nd].text, derives[i%nd].text)
			},
			Run: func(i int64, r *vf.Rec) {
				b := bases[i/(nd*nd)]
				dx, dy := derives[(i/nd)%nd], derives[i%nd]
				vx, okx := dx.f(b.Elems, b.K == model.KVec)
				vy, oky := dy.f(b.Elems, b.K == model.KVec)
				if !okx || !oky {
					return
				}
				r.NT()
				lit := b.Lisp()
				if b.K == model.KList {
					lit = "(quote " + lit + ")"
				}
				text := fmt.Sprintf("(let [v %s] (= %s %s))", lit, dx.text, dy.text)
				res, err, p := lx.Eval(context.Background(), lx.MustRead(text), env)
				r.Exec(1)
				want := model.Equal(vx, vy)
				if p != nil || err != nil {
					r.ViolationCase("= fails on derived sequences", text, fmt.Sprint(err, p))
					return
				}
				if got, _ := res.(bool); got != want {
					r.ViolationCase("= disagrees with structural equality on sequences derived from a common ancestor", text, fmt.Sprintf("expected %v got %v (%s vs %s)", want, res, vx.String(), vy.String()))
				}
			},
		}
		// values made by evaluating ONE literal of the program text several times (a function body, a macro
		// template): whatever the literal's source position is, it is the same for all of them
		oneLitVals := []string{"nil", "false", "true", "0", "1", `"a"`, ":a", "(quote a)", "()", "[]", "{}", "[1]", "(quote (1))", "{:a 1}", "[nil]", "#{}"}
		oneLitTemplates := []string{"[x 1]", "[x]", "[[x] 2]", "{:k x}", "{:k [x]}", "(list x)", "`(~x 1)", "`[~x]", "(let [y x] [y y])", "[(if x 1 2)]", "(quote [1 2])", "(with-meta [x] {:m x})"}
		nv1, nt1 := int64(len(oneLitVals)), int64(len(oneLitTemplates))
		oneLit := &vf.Family{
			Name:   "values-made-by-one-literal",
			Bounds: fmt.Sprintf("%d collection literals / templates containing a parameter (vector, nested vector, map, map of vector, list call, quasiquoted list and vector, let, if inside a vector, a quoted constant, with-meta) as the body of one function x all ordered pairs of %d argument values (atoms, empty and one-element collections): the two results of the same literal compared by = in both orders, the program read from text under a module name; also through map over a two-element vector", nt1, nv1),
			Setup:  func(t string) { tier = t; env = lx.NewCoreEnv() },
			N:      func(t string) int64 { return nt1 * nv1 * nv1 },
			Describe: func(i int64) string {
				return fmt.Sprintf("(def mk (fn [x] %s)) (= (mk %s) (mk %s))", oneLitTemplates[i/(nv1*nv1)], oneLitVals[(i/nv1)%nv1], oneLitVals[i%nv1])
			},
			Run: func(i int64, r *vf.Rec) {
				tp, x, y := oneLitTemplates[i/(nv1*nv1)], oneLitVals[(i/nv1)%nv1], oneLitVals[i%nv1]
				r.NT()
				text := fmt.Sprintf("(do (def mk (fn [x]\n %s))\n (def both (map mk [%s %s]))\n [(mk %s) (mk %s)\n (= (mk %s) (mk %s)) (= (mk %s) (mk %s)) (= (first both) (first (rest both))) (= (mk %s) (first (rest both)))])", tp, x, y, x, y, x, y, y, x, x)
				ast, rerr := lisp.READ(text, types.NewCursorFile("c14-one-literal"), nil)
				if rerr != nil {
					r.Violation("harness: comparison text does not read", text+": "+rerr.Error())
					return
				}
				res, err, p := lx.Eval(context.Background(), ast, envpkg.NewSubordinateEnv(env))
				r.Exec(1)
				if p != nil || err != nil {
					r.ViolationCase("= fails on values made by one literal", text, fmt.Sprint(err, p))
					return
				}
				v, ok := res.(types.Vector)
				if !ok || len(v.Val) != 6 {
					r.Violation("harness: unexpected result shape", fmt.Sprint(res))
					return
				}
				want := model.Equal(model.FromImpl(v.Val[0]), model.FromImpl(v.Val[1]))
				for k, what := range []string{"(= (mk X) (mk Y))", "(= (mk Y) (mk X))", "(= (first both) (second both)) with both = (map mk [X Y])", "(= (mk X) (second both))"} {
					if got, isb := v.Val[2+k].(bool); !isb || got != want {
						r.ViolationCase("= disagrees with structural equality on two values made by the same literal", text, fmt.Sprintf("%s: expected %v got %v (values %s and %s)", what, want, v.Val[2+k], model.FromImpl(v.Val[0]).String(), model.FromImpl(v.Val[1]).String()))
						return
					}
				}
			},
		}
		return &vf.Check{
			ID: "C14", Level: "model_checking",
			Rule:        "every ordered pair of data values of the bounded space is compared by the real = (through EVAL, with b also rebuilt along a second construction path) and by the model's independent structural equality; reflexivity, symmetry and transitivity are additionally checked on the implementation's own answers; non-trivial = pair of same kind / both sequential / equal",
			Assumptions: []string{"values above the weight bound; keys over {\"a\", :a, :b}"},
			Families:    []*vf.Family{pairs, triples, derived, deep, oneLit},
		}
	})
}

func oneLineC14(s string) string {
	if len(s) > 200 {
		s = s[:200]
	}
	return strings.ReplaceAll(s, "\n", " ")
}
