package props

import (
	"context"
	"fmt"
	"strings"
	"time"

	"github.com/jig/lisp/env"
	"github.com/jig/lisp/types"

	"github.com/jig/lisp/zverif/vcore"
	"verifharness/internal/explore"
	"verifharness/internal/lx"
	"verifharness/internal/model"
	"verifharness/internal/vf"
)

type c11prog struct {
	name  string
	heavy bool
	text  func(i int) string // i = thread-unique number
}

var c11Progs = []c11prog{
	{"let-shadow", false, func(i int) string { return fmt.Sprintf("(let [x %d] (let [x (+ x 1) y x] (+ x y)))", i) }},
	{"fn-params", false, func(i int) string { return fmt.Sprintf("((fn [x y & z] (list x y z)) %d 1 2)", i) }},
	{"closure-counter", false, func(i int) string {
		return fmt.Sprintf("(let [c (atom %d) bump (fn [] (swap! c inc))] (bump) (bump) @c)", i)
	}},
	{"catch-variable", false, func(i int) string { return fmt.Sprintf("(try (throw %d) (catch e (+ e 1)))", i) }},
	{"def-own-global", false, func(i int) string { return fmt.Sprintf("(do (def mine-%d (list %d %d)) mine-%d)", i, i, i, i) }},
	{"conj-shared-vector", false, func(i int) string { return fmt.Sprintf("(do (def r-%d (conj shared %d)) r-%d)", i, i, i) }},
	{"concat-shared", false, func(i int) string { return fmt.Sprintf("(concat shared [%d])", i) }},
	{"splice-shared", false, func(i int) string { return fmt.Sprintf("`(~@shared %d)", i) }},
	{"read-others-global", false, func(i int) string {
		// reads the global another thread may be defining: unbound or the complete value
		return "(try (count mine-OTHER) (catch e :unbound))"
	}},
	{"assoc-shared-map", false, func(i int) string { return fmt.Sprintf("(get (assoc sharedmap :k%d %d) :a)", i, i) }},
	{"def-inside-called-thunk", false, func(i int) string { return fmt.Sprintf("((fn [] (def tmp %d) (list tmp tmp)))", i) }},
	{"def-inside-future-body", true, func(i int) string { return fmt.Sprintf("(deref (future (def tmpf %d) (list tmpf tmpf)))", i) }},
	{"cond-and-or", true, func(i int) string {
		return fmt.Sprintf("(list (cond false 1 (= %d %d) %d) (and 1 %d) (or nil %d))", i, i, i, i, i)
	}},
	{"memoize", true, func(i int) string {
		return fmt.Sprintf("(do (def m-%d (memoize (fn [x] (+ x %d)))) (list (m-%d 1) (m-%d 1)))", i, i, i, i)
	}},
	{"future-deref", true, func(i int) string { return fmt.Sprintf("(let [f (future (+ %d 1))] (deref f))", i) }},
	// a macro of the shared environment redefined (to the same macro) while another thread expands a call
	// of it: the name is a macro at every instant, its operand is never evaluated
	{"redefine-shared-macro", true, func(i int) string {
		return fmt.Sprintf("(do (defmacro qm (fn [x] (list (quote quote) x))) (qm (mine %d)))", i)
	}},
	{"call-shared-macro", true, func(i int) string { return fmt.Sprintf("(list (qm (nosuch %d)) (qm (nosuch %d)))", i, i) }},
	{"thread-first", true, func(i int) string { return fmt.Sprintf("(-> %d (+ 1) (list 2))", i) }},
}

func replaceOther(t string, other int) string {
	return strings.ReplaceAll(t, "mine-OTHER", fmt.Sprintf("mine-%d", other))
}

type c11state struct {
	shared  types.EnvType
	results []string
	done    []bool
}

func init() {
	vf.Register("C11", func() *vf.Check {
		var base types.EnvType
		var tier string
		setup := func(t string) {
			tier = t
			base = lx.NewFullEnv()
		}
		type plan struct{ progs []int }
		var plans []plan
		plansOf := func() []plan {
			if plans != nil {
				return plans
			}
			n := len(c11Progs)
			for i := 0; i < n; i++ {
				for j := i; j < n; j++ {
					plans = append(plans, plan{[]int{i, j}})
				}
			}
			for i := 0; i < n; i++ {
				for j := i; j < n; j++ {
					for k := j; k < n; k++ {
						if c11Progs[i].heavy || c11Progs[j].heavy || c11Progs[k].heavy {
							continue
						}
						plans = append(plans, plan{[]int{i, j, k}})
					}
				}
			}
			return plans
		}
		textOf := func(p plan, ti int) string {
			t := c11Progs[p.progs[ti]].text(ti + 1)
			other := (ti+1)%len(p.progs) + 1
			return strings.ReplaceAll(t, "mine-OTHER", fmt.Sprintf("mine-%d", other))
		}
		planStr := func(p plan) string {
			var ts []string
			for ti := range p.progs {
				ts = append(ts, fmt.Sprintf("T%d: %s", ti, textOf(p, ti)))
			}
			return strings.Join(ts, " || ")
		}
		newShared := func() types.EnvType {
			sh := env.NewSubordinateEnv(base)
			for _, s := range []string{"(def shared [1 2 3])", "(def sharedmap {:a 1})", "(defmacro qm (fn [x] (list (quote quote) x)))"} {
				if _, err, p := lx.Eval(context.Background(), lx.MustRead(s), sh); err != nil || p != nil {
					panic("c11 shared setup")
				}
			}
			return sh
		}
		render := func(res types.MalType, err error, p *lx.Panic) string {
			switch {
			case p != nil:
				return "PANIC " + p.String()
			case err != nil:
				return "error " + shortErr(err)
			}
			return model.FromImpl(res).String()
		}
		mkScenario := func(p plan) (*explore.Scenario, []map[string]bool) {
			// solo results: each program alone on a fresh shared environment
			solo := make([]map[string]bool, len(p.progs))
			for ti := range p.progs {
				sh := newShared()
				res, err, pn := lx.Eval(context.Background(), lx.MustRead(textOf(p, ti)), sh)
				solo[ti] = map[string]bool{render(res, err, pn): true}
				if c11Progs[p.progs[ti]].name == "read-others-global" {
					// the other thread's global is seen entirely or not at all
					solo[ti] = map[string]bool{`:"unbound"`: true, "2": true}
				}
			}
			sc := &explore.Scenario{
				Name:        planStr(p),
				VisibleAtom: true, VisibleHook: true, VisibleEnv: true, Reduction: true,
				Setup: func() any {
					st := &c11state{shared: newShared()}
					st.results = make([]string, len(p.progs))
					st.done = make([]bool, len(p.progs))
					return st
				},
				Threads: func(state any) []func() {
					st := state.(*c11state)
					var bodies []func()
					for ti := range p.progs {
						ti := ti
						bodies = append(bodies, func() {
							if s := vcore.Active(); s != nil {
								s.Point("program-start")
							}
							res, err, pn := lx.Eval(context.Background(), lx.MustRead(textOf(p, ti)), st.shared)
							st.results[ti] = render(res, err, pn)
							st.done[ti] = true
						})
					}
					return bodies
				},
				DeadlockSig: func(state any, s *vcore.Sched) string { return "concurrent evaluations deadlock" },
				Check: func(state any, s *vcore.Sched) (string, string, string) {
					st := state.(*c11state)
					o := strings.Join(st.results, " | ")
					for ti, r := range st.results {
						if !solo[ti][r] {
							var want []string
							for k := range solo[ti] {
								want = append(want, k)
							}
							return "result differs from the solo result: " + c11Progs[p.progs[ti]].name,
								fmt.Sprintf("T%d %s: got %s, alone it returns %s", ti, textOf(p, ti), r, strings.Join(want, " or ")), o
						}
					}
					return "", "", o
				},
			}
			return sc, solo
		}
		fam := &vf.Family{
			Name:     "program-sets",
			Bounds:   fmt.Sprintf("all unordered pairs over %d programs (local scopes, closures, catch variables, own globals, reads of a shared vector/map through conj/concat/splice/assoc, reading another evaluation's global, library macros with gensym, memoize, a future) and all triples of the %d light ones, on one shared scope over the preloaded libraries; all interleavings at env/atom lock operations and hook points with partial-order reduction (private objects, never-write-locked read locks); preemption bound: light pairs 3, heavy pairs and triples 2 (quick); light pairs 4, others 3 (thorough, plus an unreduced cross-check of light pairs at bound 1)", len(c11Progs), 11),
			Setup:    setup,
			Timeout:  1200 * time.Second,
			N:        func(t string) int64 { tier = t; return int64(len(plansOf())) },
			Describe: func(i int64) string { return planStr(plansOf()[i]) },
			Run: func(i int64, r *vf.Rec) {
				p := plansOf()[i]
				heavy := false
				for _, x := range p.progs {
					heavy = heavy || c11Progs[x].heavy
				}
				bound, maxEx := 3, 400000
				if heavy || len(p.progs) > 2 {
					bound = 2
				}
				if tier == "thorough" {
					bound++
					maxEx = 3000000
				}
				sc, _ := mkScenario(p)
				limit := 120 * time.Second
				if tier == "thorough" {
					limit = 900 * time.Second
				}
				res := explore.Explore(sc, bound, maxEx, time.Now().Add(limit))
				r.Exec(int64(res.Execs))
				if res.WithSwitch > 0 {
					r.NT()
				}
				if res.Internal != "" {
					r.Violation(res.Internal, planStr(p))
					return
				}
				if !res.Complete {
					r.Cap(fmt.Sprintf("a scenario was capped before completing its preemption bound (completed bound %d)", res.BoundCompleted))
					r.Note(fmt.Sprintf("capped at bound %d after %d executions: %s", res.BoundCompleted, res.Execs, planStr(p)))
				}
				r.Outcome(fmt.Sprintf("scenarios completed at preemption bound %d", res.BoundCompleted))
				r.Outcome(fmt.Sprintf("max choice points per execution <= %d", ((res.MaxPoints/100)+1)*100))
				for _, v := range res.Violations {
					r.Violation(v.Sig, fmt.Sprintf("first seen at preemption bound %d\n%s", v.Bound, v.Detail))
				}
				// cross-check of the reduction: without it (every lock operation a choice point)
				// the set of observed outcomes at a small bound must be a subset of what the reduced
				// exploration saw at its (larger) bound
				if tier == "thorough" && !heavy && len(p.progs) == 2 && res.Complete {
					sc2, _ := mkScenario(p)
					sc2.Reduction = false
					res2 := explore.Explore(sc2, 1, 100000, time.Now().Add(60*time.Second))
					r.Exec(int64(res2.Execs))
					r.Outcome("reduction cross-checks run")
					for o := range res2.Outcomes {
						if res.Outcomes[o] == 0 {
							r.Violation("INTERNAL: partial-order reduction hides an outcome", fmt.Sprintf("%s: outcome %q seen without reduction at bound 1 but not with reduction at bound %d", planStr(p), o, bound))
						}
					}
				}
			},
		}
		return &vf.Check{
			RacePass: c11RacePass,
			ID:       "C11", Level: "model_checking",
			Rule:        "every set of programs is run concurrently on one shared scope under the controlled scheduler (env and atom locks modelled, hook points of futures), exploring every interleaving up to the preemption bound with a sound partial-order reduction; each evaluation's result must equal its solo result (a global being defined by another evaluation reads as unbound or as the complete value) and no execution may deadlock; non-trivial = scenario with a context switch inside an evaluation",
			Assumptions: []string{"data races between scheduling points are the race pass's job", "results are compared, not macro expansions (gensym numbering differs legitimately)"},
			Families:    []*vf.Family{fam},
		}
	})
}
