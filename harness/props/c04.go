package props

import (
	"fmt"
	"sort"
	"strings"

	"github.com/jig/lisp/env"
	"github.com/jig/lisp/lib/concurrent"
	"github.com/jig/lisp/types"

	"verifharness/internal/lx"
	"verifharness/internal/model"
	"verifharness/internal/vclock"
	"verifharness/internal/vf"
)

var c04Heads = []string{"def", "let", "quote", "quasiquote", "quasiquoteexpand", "defmacro", "macroexpand", "try", "do", "if", "fn"}

// operand shapes for special forms (as source text)
var c04Operands = []string{
	"nil", "1", `"s"`, ":k", "x", "unbound", "&", "()", "[]", "{}", "(x)", "[x 1]", "[x]", "[1 2]", "[&]", "[& 1]", "[a & b]",
	"(catch)", "(catch e)", "(catch 1 2)", "(catch (a) 2)", "(catch & 1)", "(finally)", "(unquote)", "(splice-unquote)", "((splice-unquote))",
	"(fn [a] a)", "(catch e e)", "(unquote 1 2)", "[(splice-unquote)]", "(finally (throw 1))", "(throw 2)", "(() 1)", "(list (list) 1)",
	"[catch e 2]", "[finally 2]", "[catch]", "[unquote 1]", // clause and template heads in a vector: plain data
}

type c04rig struct {
	base    types.EnvType
	symbols []string
	opAST   []types.MalType
}

func (rg *c04rig) setup() {
	rg.base = lx.NewFullEnv()
	installGoBuiltins(rg.base)
	if _, err, p := lx.Eval(nil, lx.MustRead("(def x 7)"), rg.base); err != nil || p != nil {
		panic("c04 prelude")
	}
	for _, s := range c04Operands {
		rg.opAST = append(rg.opAST, lx.MustRead(s))
	}
	// every symbol bound in the loaded environment (sorted: deterministic index)
	var syms []string
	for _, r := range rg.base.Symbols(nil, "") {
		syms = append(syms, string(r))
	}
	sort.Strings(syms)
	skip := map[string]bool{"run-fn-for": true, "x": true, "_PACKAGES_": true, "pan!": true, "pans!": true, "boom!": true, "boomw!": true, "rawpan!": true, "sentinel": true}
	for _, s := range syms {
		if !skip[s] {
			rg.symbols = append(rg.symbols, s)
		}
	}
}

// value alphabet for builtin arguments; atoms are created fresh per case
func (rg *c04rig) values() []types.MalType {
	fn, _, _ := lx.Eval(nil, lx.MustRead("(fn [a] a)"), rg.base)
	bi, _ := rg.base.Get(types.Symbol{Val: "count"})
	qv := func(s string) types.MalType { return q(lx.MustRead(s)) }
	return []types.MalType{
		nil, 0, -1, 7, "", "a", types.NewKeyword("k"), qv("sym"), qv("()"), qv("(1 2)"), qv("[]"), qv("[1 2]"),
		qv("{}"), qv("{:a 1}"), qv(`#{"a"}`), &concurrent.Atom{Val: 0}, fn, bi,
	}
}

const c04NVals = 18

// evalCase evaluates ast in a fresh scope; reports a panic; if it returned an error,
// checks that the same form is catchable by try/catch.
func (rg *c04rig) evalCase(ast types.MalType, what string, r *vf.Rec, checkCatch bool) (types.MalType, bool) {
	scope := env.NewSubordinateEnv(rg.base)
	ctx := vclock.NewPollCtx(5000)
	res, err, p := lx.Eval(ctx, ast, scope)
	r.Exec(1)
	if p != nil {
		r.Violation("panic escapes EVAL: "+panicSig(p), what+": "+p.String()+"\n"+trimStack(p.Stack))
		r.Outcome("panic")
		return nil, false
	}
	if err != nil {
		r.Outcome("error")
		r.NT()
		if checkCatch && !ctx.Cancelled() {
			wrapped := types.List{Val: []types.MalType{types.Symbol{Val: "try"}, ast,
				types.List{Val: []types.MalType{types.Symbol{Val: "catch"}, types.Symbol{Val: "e"}, types.NewKeyword("caught")}}}}
			scope2 := env.NewSubordinateEnv(rg.base)
			res2, err2, p2 := lx.Eval(vclock.NewPollCtx(5000), wrapped, scope2)
			r.Exec(1)
			switch {
			case p2 != nil:
				r.Violation("panic escapes EVAL: "+panicSig(p2), what+" inside try: "+p2.String()+"\n"+trimStack(p2.Stack))
			case err2 != nil:
				r.Violation("error is not catchable by try/catch", fmt.Sprintf("%s: plain evaluation: %v; inside (try .. (catch e :caught)): error %v", what, err, err2))
			case res2 != types.NewKeyword("caught"):
				// stateful library functions (load-file-once remembers its argument) may simply
				// not fail the second time: only a case that still fails on its own counts
				_, err3, _ := lx.Eval(vclock.NewPollCtx(5000), ast, env.NewSubordinateEnv(rg.base))
				if err3 == nil {
					r.Note("stateful case: fails only the first time (not judged)")
					break
				}
				r.Violation("error is not catchable by try/catch", fmt.Sprintf("%s: plain evaluation: %v; inside try: value %v", what, err, model.FromImpl(res2)))
			}
		}
		return nil, false
	}
	r.Outcome("value")
	return res, true
}

func init() {
	vf.Register("C04", func() *vf.Check {
		rg := &c04rig{}
		var tier string
		setup := func(t string) { tier = t; rg.setup() }
		nOps := len(c04Operands)
		sfLen := func() int {
			if tier == "thorough" {
				return 4
			}
			return 3
		}
		sfCase := func(i int64) (head string, ops []int) {
			sp := seqSpace{nOps, sfLen()}
			n := sp.size()
			return c04Heads[i/n], sp.unrank(i % n)
		}
		sfText := func(i int64) string {
			h, ops := sfCase(i)
			parts := []string{h}
			for _, o := range ops {
				parts = append(parts, c04Operands[o])
			}
			return "(" + strings.Join(parts, " ") + ")"
		}
		special := &vf.Family{
			Name:     "special-forms",
			Bounds:   fmt.Sprintf("%d special-form heads x every operand tuple of length 0..3 (quick) / 0..4 (thorough) over %d operand shapes (atoms, bound/unbound symbols, &, malformed binding vectors and parameter lists, malformed catch/finally/unquote forms); function/macro results are then applied to 0..2 arguments", len(c04Heads), nOps),
			Setup:    setup,
			N:        func(t string) int64 { tier = t; return int64(len(c04Heads)) * seqSpace{nOps, sfLen()}.size() },
			Describe: sfText,
			Run: func(i int64, r *vf.Rec) {
				h, ops := sfCase(i)
				el := []types.MalType{types.Symbol{Val: h}}
				for _, o := range ops {
					el = append(el, rg.opAST[o])
				}
				ast := types.List{Val: el}
				res, ok := rg.evalCase(ast, h, r, h != "try")
				if !ok {
					return
				}
				if mf, isFn := res.(types.MalFunc); isFn {
					for n := 0; n <= 2; n++ {
						call := types.List{Val: append([]types.MalType{mf}, []types.MalType{1, 2}[:n]...)}
						rg.evalCase(call, fmt.Sprintf("calling the function made by %s", h), r, true)
					}
				}
			},
		}
		bLen := 3
		var vals []types.MalType
		biCase := func(i int64) (string, []int) {
			if rg.symbols == nil {
				rg.setup()
			}
			sp := seqSpace{c04NVals, bLen}
			n := sp.size()
			return rg.symbols[i/n], sp.unrank(i % n)
		}
		valNames := []string{"nil", "0", "-1", "7", `""`, `"a"`, ":k", "'sym", "'()", "'(1 2)", "'[]", "'[1 2]", "'{}", "'{:a 1}", `'#{"a"}`, "<atom 0>", "<fn [a] a>", "<builtin count>"}
		builtins := &vf.Family{
			Name:   "bound-symbols",
			Bounds: fmt.Sprintf("every symbol bound in the fully loaded environment (core, input, concurrent, coreextended; ~150 builtins, library functions and macros) x every argument tuple of length 0..3 over %d values of every kind (nil, ints, strings, keyword, symbol, list, vector, map, set, atom, closure, builtin)", c04NVals),
			Setup:  setup,
			N: func(t string) int64 {
				tier = t
				if rg.symbols == nil {
					rg.setup()
				}
				return int64(len(rg.symbols)) * seqSpace{c04NVals, bLen}.size()
			},
			Describe: func(i int64) string {
				s, d := biCase(i)
				parts := []string{s}
				for _, x := range d {
					parts = append(parts, valNames[x])
				}
				return "(" + strings.Join(parts, " ") + ")"
			},
			Run: func(i int64, r *vf.Rec) {
				s, d := biCase(i)
				vals = rg.values() // fresh atom per case
				if s == "panic" && len(d) == 1 && d[0] == 0 {
					return // (panic nil): meaning depends on the Go runtime's panicnil setting, not on jig/lisp
				}
				el := []types.MalType{types.Symbol{Val: s}}
				for _, x := range d {
					el = append(el, vals[x])
				}
				rg.evalCase(types.List{Val: el}, s, r, true)
			},
		}
		// one-level nestings: each erroring / odd special form placed in well-formed contexts
		ctxs := []string{"(do (defmacro zm (fn [] @)) (zm))", "(do (defmacro zm (fn [& xs] (quote @))) (zm 1))", "(do 1 @)", "(let [y @] y)", "(if @ 1 2)", "(list @ 2)", "[@ 1]", "{:a @}", "((fn [a] a) @)", "(try @ (catch e e))", "(try 1 (finally @))", "`(1 ~@ 2)", "(def y @)", "(cond @ 1)", "(-> @ (list))", "(or @ 1)", "(apply list @ [])", "(map (fn [a] @) [1])"}
		nests := &vf.Family{
			Name:   "nestings",
			Bounds: fmt.Sprintf("every special-form case of length <=2 placed in each hole of %d well-formed contexts (do/let/if/call/literals/try/finally/quasiquote/def/library macros/apply/map)", len(ctxs)),
			Setup:  setup,
			N: func(t string) int64 {
				tier = t
				return int64(len(ctxs)) * int64(len(c04Heads)) * seqSpace{nOps, 2}.size()
			},
			Describe: func(i int64) string {
				n := int64(len(c04Heads)) * seqSpace{nOps, 2}.size()
				c := ctxs[i/n]
				j := i % n
				sp := seqSpace{nOps, 2}
				parts := []string{c04Heads[j/sp.size()]}
				for _, o := range sp.unrank(j % sp.size()) {
					parts = append(parts, c04Operands[o])
				}
				return strings.Replace(c, "@", "("+strings.Join(parts, " ")+")", 1)
			},
			Run: nil,
		}
		nests.Run = func(i int64, r *vf.Rec) {
			text := nests.Describe(i)
			ast, err, p := lx.Read(text)
			if p != nil || err != nil {
				r.Note("nesting text does not read")
				return
			}
			rg.evalCase(ast, "nested "+strings.SplitN(strings.TrimLeft(text[strings.Index(text, "@")+1:], "("), " ", 2)[0], r, !strings.Contains(text, "(try"))
		}
		// function values of every kind handed to everything that calls a function
		fvals := []string{
			"(fn [& a] 1)", "(with-meta (fn [& a] 1) {:m 1})", "^{:m 1} (fn [& a] 1)", "list", "(with-meta list {:m 1})", "inc",
			"(fn [& a] (throw {:c 1}))", "(fn [& a] (throw [1 2]))", "(fn [& a] (throw (list 1)))", "(with-meta (fn [& a] (throw #{1})) {:m 1})",
			"(fn [& a] (throw nil))", "(fn [a] a)", ":k", "{:a 1}", "nil", "5", "(atom 1)", "(defmacro zq (fn [& a] 1))",
			// functions whose (fn ..) form has no source position: built by eval of a constructed list, by quasiquote
			"(eval (list (quote fn) [(quote a)] (quote a)))", "(eval `(fn [b#] b#))", "(with-meta (eval (list (quote fn) [(quote a) (quote b)] 1)) {:m 1})",
		}
		callers := []string{
			"(@)", "(@ 1)", "(apply @ [1])", "(apply @ 1 [2])", "(map @ [1 2])", "(filter @ [1 2])", "(reduce @ 0 [1 2])", "(some @ [1 2])", "(every? @ [1 2])",
			"(swap! (atom 1) @)", "(swap! (atom 1) @ 2)", "(deref (future-call @))", "(deref (future (@ 1)))", "(do (def fu (future-call @)) (future-cancel fu) (try (deref fu) (catch e 1)))",
			"(do (defmacro zm @) (zm 1))", "(do (defmacro zm @) (zm))", "(do (defmacro zm @) (zm 1 2 3))", "(apply @ [])", "(apply @ [1 2 3])", "(map @ [1] [2] [3])", "(do (defmacro zm @) (macroexpand (quote (zm 1))))", "(do (defmacro zm @) (try (zm 1) (catch e e)))",
			"(update {:a 1} :a @)", "(update-in {:a {:b 1}} [:a :b] @)", "(sort-by @ [2 1])", "((comp @ @) 1)", "((partial @ 1) 2)",
			"(try (@ 1) (catch e (throw e)))", "(try (@ 1) (catch e (throw (conj e 2))))", "(try (@ 1) (catch e (throw e)) (finally 1))",
			"(try (try (@ 1) (catch e (throw e))) (catch e2 e2))", "(try (@ 1) (finally (@ 2)))", "(try (throw (@ 1)) (catch e (throw e)))",
			"((with-meta @ {:z 1}) 1)", "(meta @)", "(pr-str @)", "(str @)", "(= @ @)", "(let [g @] (g 1))", "(do (def g @) (g 1 2))",
		}
		fcalls := &vf.Family{
			Name:   "function-values-x-callers",
			Bounds: fmt.Sprintf("%d function-like values (closures, with metadata through with-meta and the ^ reader macro, closures without a source position (made by eval of a constructed form), builtins, closures throwing maps / vectors / lists / sets / nil, keywords, maps, non-functions, a macro) placed in %d calling contexts (direct call, apply, map, filter, reduce, swap!, future-call / future and deref, cancelled future, defmacro + call with the right and with wrong argument counts / macroexpand, update, update-in, comp, partial, try handlers that re-throw what they caught, finally, with-meta, printing, =)", len(fvals), len(callers)),
			Setup:  setup,
			N:      func(t string) int64 { tier = t; return int64(len(fvals) * len(callers)) },
			Describe: func(i int64) string {
				return strings.Replace(callers[i/int64(len(fvals))], "@", fvals[i%int64(len(fvals))], -1)
			},
			Run: nil,
		}
		fcalls.Run = func(i int64, r *vf.Rec) {
			text := fcalls.Describe(i)
			ast, err, p := lx.Read(text)
			if p != nil || err != nil {
				r.Note("text does not read")
				return
			}
			rg.evalCase(ast, "function value in "+callers[i/int64(len(fvals))], r, !strings.Contains(text, "(try"))
		}
		return &vf.Check{
			ID: "C04", Level: "model_checking",
			Rule:        "every AST of the bounded spaces is evaluated by the real EVAL under recover in a fresh scope with a poll-bounded context; a Go panic crossing EVAL is a violation (signature = panic site); every case that returned an error is re-run inside (try CASE (catch e :caught)) and must yield :caught; non-trivial = the case returned an error",
			Assumptions: []string{"acyclic ASTs; (panic nil) excluded (Go runtime panicnil semantics); run-fn-for excluded (runs for seconds by design)", "worker stdin is /dev/null, stdout discarded"},
			Families:    []*vf.Family{special, builtins, nests, fcalls},
		}
	})
}
