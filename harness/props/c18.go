package props

import (
	"context"
	"fmt"
	"strings"
	"time"

	lisp "github.com/jig/lisp"
	"github.com/jig/lisp/debuggertypes"
	"github.com/jig/lisp/env"
	"github.com/jig/lisp/lib/call"
	"github.com/jig/lisp/types"

	"verifharness/internal/enum"
	"verifharness/internal/lx"
	"verifharness/internal/model"
	"verifharness/internal/vclock"
	"verifharness/internal/vf"
)

var c18Cmds = []debuggertypes.Command{debuggertypes.NoOp, debuggertypes.Next, debuggertypes.In, debuggertypes.Out}
var c18CmdNames = []string{"noop", "next", "in", "out"}

type c18rig struct {
	*evalRig
}

type c18expect struct {
	at   int // trace index the next (t! sym) must produce
	want V
	form string
}

// runStepped evaluates ast with the scripted stepper installed (script applied cyclically).
func (rg *c18rig) runStepped(ast types.MalType, script []int, r *vf.Rec) (implOutcome, string) {
	rg.tracer.Reset()
	scope := env.NewSubordinateEnv(rg.base)
	lisp.VerifResetStepFlags()
	calls := 0
	var expects []c18expect
	bad := ""
	lisp.Stepper = func(a types.MalType, e types.EnvType) debuggertypes.Command {
		cmd := script[calls%len(script)]
		calls++
		r.Outcome(fmt.Sprintf("stepper state [flags set: %s] cmd=%s", lisp.VerifStepFlags(), c18CmdNames[cmd]))
		if e == nil {
			bad = "callback received a nil scope"
		}
		// a form (t! sym): its argument must resolve, in the scope handed to the callback,
		// to the value the effect trace shows next
		if l, ok := a.(types.List); ok && len(l.Val) == 2 {
			if h, ok := l.Val[0].(types.Symbol); ok && h.Val == "t!" {
				if s, ok := l.Val[1].(types.Symbol); ok && e != nil {
					if v, err := e.Get(s); err == nil {
						expects = append(expects, c18expect{len(rg.tracer.Log), model.FromImpl(v), "(t! " + s.Val + ")"})
					}
				}
			}
		}
		return c18Cmds[cmd]
	}
	var out implOutcome
	res, err, p := lx.Eval(vclock.NewPollCtx(2000000), ast, scope) // the plain run needed < 3000 polls
	lisp.Stepper = nil
	lisp.VerifResetStepFlags()
	for _, t := range rg.tracer.Log {
		out.Trace = append(out.Trace, model.FromImpl(t))
	}
	out.Panic = p
	if p == nil {
		if err != nil {
			out.IsErr, out.Err, out.ErrMsg = true, err, err.Error()
			if ev, ok := lx.ErrValue(err); ok {
				if _, isGo := ev.(error); !isGo {
					out.Thrown, out.Payload = true, model.FromImpl(ev)
				}
			}
		} else {
			out.Val = model.FromImpl(res)
		}
	}
	for _, ex := range expects {
		if ex.at >= len(out.Trace) {
			continue // evaluation of that form failed before its effect (e.g. an earlier argument threw)
		}
		if !model.Identical(out.Trace[ex.at], ex.want) {
			bad = fmt.Sprintf("callback was handed %s with a scope in which the argument is %s, but the evaluation that followed produced %s", ex.form, ex.want.String(), out.Trace[ex.at].String())
		}
	}
	return out, bad
}

func c18Scripts(maxLen int) [][]int {
	var out [][]int
	sp := seqSpace{4, maxLen}
	for i := int64(1); i < sp.size(); i++ { // skip the empty script
		out = append(out, sp.unrank(i))
	}
	return out
}

func scriptName(s []int) string {
	p := make([]string, len(s))
	for i, c := range s {
		p[i] = c18CmdNames[c]
	}
	return strings.Join(p, ",")
}

func init() {
	vf.Register("C18", func() *vf.Check {
		var rg *c18rig
		var tier string
		setup := func(t string) {
			tier = t
			rg = &c18rig{newEvalRig(true)}
			pre := `(do (def x 7) (def l (list 1 2)) (def v [3]) (def e (list)) (def y 5))`
			if _, err, p := lx.Eval(nil, lx.MustRead(pre), rg.base); err != nil || p != nil {
				panic("c18 prelude")
			}
		}
		var scripts [][]int
		scriptsOf := func() [][]int {
			if scripts == nil {
				n := 3
				if tier == "thorough" {
					n = 4
				}
				scripts = c18Scripts(n)
			}
			return scripts
		}
		// program sources: core forms with scoped effects, try nests, macro calls
		var gCore, gTry, gMac *enum.Grammar
		coreW := func() int { return 4 }
		tryW := func() int {
			if tier == "thorough" {
				return 4
			}
			return 3
		}
		init3 := func() {
			if gCore == nil {
				ps := c01Prods(false)
				ps = append([]enum.Prod{leaf("(t! x)", form("t!", sym("x"))), leaf("(t! y)", form("t!", sym("y"))),
					leaf("{:k x}", mp(kw("k"), sym("x"))), leaf("[x (t! 1)]", model.Vec(sym("x"), form("t!", model.Int(1))))}, ps...)
				gCore = enum.New([][]enum.Prod{ps}, coreW())
				gTry = c03Grammar(tryW())
				gMac = c12CodeGrammar(3)
			}
		}
		type src struct {
			name string
			n    func() int64
			prog func(i int64) V
		}
		macArgs := c12Args(2)
		srcs := []src{
			{"core", func() int64 { init3(); return gCore.Count(0, coreW()) }, func(i int64) V { return gCore.Unrank(0, i) }},
			{"try", func() int64 { init3(); return gTry.Count(0, tryW()) }, func(i int64) V { return c03Wrap(gTry.Unrank(0, i)) }},
			{"macro", func() int64 { init3(); return gMac.Count(0, 3) * int64(len(macArgs)) }, func(i int64) V {
				na := int64(len(macArgs))
				body := form("quasiquote", gMac.Unrank(0, i/na))
				return form("do", form("defmacro", sym("mac"), form("fn", model.Vec(sym("p"), sym("&"), sym("r")), form("t!", model.Int(7)), body)),
					model.List(append([]V{sym("mac")}, macArgs[i%na]...)...))
			}},
		}
		// long tail-recursive loops (thousands of iterations): under a stepper every iteration nests host
		// frames, the result and effects must still be those of the plain run
		loopProgs := []string{
			"(do (def lp (fn [n acc] (if (< n 1) acc (lp (- n 1) (+ acc 2))))) (lp 4000 0))",
			"(do (def lp (fn [n] (if (< n 1) (t! :done) (do (if (= n 2000) (t! :half)) (lp (- n 1)))))) (lp 4000))",
			"(do (def ev (fn [n] (if (< n 1) (t! :even) (od (- n 1))))) (def od (fn [n] (if (< n 1) (t! :odd) (ev (- n 1))))) (ev 3001))",
		}
		// fixed programs: a try whose handler ends in a call / let that rebinds a name the finally body reads,
		// and bare panicking Go functions in bodies and handlers (under every script)
		fixedProgs := []string{
			"(let [x 1] (try (throw 1) (catch e ((fn [x] (t! x)) 2)) (finally (t! x))))",
			"(let [x 1] (try (throw 1) (catch e (let [x 3] (t! x))) (finally (t! x) (t! y))))",
			"(let [x 1] (try (throw 1) (catch x (do (t! x) ((fn [y] (t! y)) 4))) (finally (t! x))))",
			"(try (list :in (try (rawpan!) (catch e (t! 1) :h) (finally (t! :fin)))) (catch z :outer))",
			"(try (list :in (try (throw 1) (catch e (t! 1) (rawpan!)) (finally (t! :fin))) (t! :after)) (catch z :outer))",
			"(try (list (t! 1) (apply rawpan! (list)) (t! 2)) (catch z (t! :c) :outer))",
			"(try (list 1 (rawpan!)) (catch e (t! e) (str e)))",
			"(try (+ 1 (do (t! 1) (rawpan!))) (catch e (list :caught e)))",
			"(do (def gp (fn [] (list 2 (rawpan!)))) (try (list 1 (gp)) (catch e (str e))))",
			"(do (def gp (fn [] (t! :gp) (rawpan!))) (try (do (t! 0) (gp) (t! 9)) (catch z (t! :c) 5) (finally (t! :fin))))",
			// an expansion that is only asked for (the macroexpand form returns it as data, nothing evaluates it)
			"(do (defmacro m1 (fn [s] (list (quote t!) s))) (let [x 5] (macroexpand (m1 x)) (t! 6)))",
			"(do (defmacro m1 (fn [s] (list (quote t!) s))) (def x 5) (list (macroexpand (m1 x)) (let [x 7] (t! 8)) (m1 x)))",
			"(do (defmacro m2 (fn [s] (list (quote do) (list (quote t!) s)))) (let [y 1] (list (macroexpand (m2 y)) (t! 2) (m2 y))))",
		}
		srcs = append(srcs, src{"fixed", func() int64 { return int64(len(fixedProgs)) }, func(i int64) V { return model.FromImpl(lx.MustRead(fixedProgs[i])) }})
		srcs = append(srcs, src{"loop", func() int64 { return int64(len(loopProgs)) }, func(i int64) V { return model.FromImpl(lx.MustRead(loopProgs[i])) }})
		progOf := func(i int64) (V, string) {
			for _, s := range srcs {
				if i < s.n() {
					return s.prog(i), s.name
				}
				i -= s.n()
			}
			panic("c18 index")
		}
		fam := &vf.Family{
			Name:   "programs-x-scripts",
			Bounds: "programs: all core-form programs (C01 grammar + (t! x), (t! y)) of weight <=4, all try nests (C03 grammar) of weight <=3/<=4, all template macros (C12 code grammar, weight <=3) x operand tuples of length 1-2, 13 fixed programs (handlers ending in a call or let that rebinds what finally reads; bare panicking Go functions; expansions asked for with macroexpand and not evaluated), and 3 tail-recursive loops of 3000-4000 iterations (under the four one-command scripts); each run under every stepper command script of length 1..3 (quick, 84) / 1..4 (thorough, 340) over {noop, next, in, out}, applied cyclically",
			Setup:  setup,
			N: func(t string) int64 {
				tier = t
				var n int64
				for _, s := range srcs {
					n += s.n()
				}
				return n
			},
			Describe: func(i int64) string { p, _ := progOf(i); return p.Lisp() + " x every stepper script" },
			Run: func(i int64, r *vf.Rec) {
				prog, kind := progOf(i)
				// read from text under a named cursor, so that every form has a source position as in
				// real use (the stepper's reports and error positions depend on it)
				ast, rerr := lisp.READ(prog.Lisp(), types.NewCursorFile("c18"), nil)
				if rerr != nil {
					r.Violation("harness: generated program does not read", rerr.Error())
					return
				}
				lisp.Stepper = nil
				fuel := 3000
				if kind == "loop" {
					fuel = 90000
				}
				plain, _ := rg.runImpl(ast, fuel)
				r.Exec(1)
				if plain.Fuel {
					r.Note("skipped: program does not terminate (fuel)")
					return
				}
				if plain.Panic != nil {
					r.Note("skipped: program panics without a stepper (C04)")
					return
				}
				if len(plain.Trace) > 0 {
					r.NT()
				}
				for _, sc := range scriptsOf() {
					if kind == "loop" && len(sc) > 1 {
						continue // the long loops run under the four one-command scripts only
					}
					got, bad := rg.runStepped(ast, sc, r)
					r.Exec(1)
					what := kind + " program, script starting with " + c18CmdNames[sc[0]]
					if got.Panic != nil {
						r.ViolationCase("stepper makes evaluation panic: "+panicSig(got.Panic), prog.Lisp()+" script "+scriptName(sc), got.Panic.String())
						return
					}
					if bad != "" {
						r.ViolationCase("stepper callback handed a form with the wrong scope", prog.Lisp()+" script "+scriptName(sc), bad)
						return
					}
					if !sameOutcome(plain, got) {
						r.ViolationCase("stepper changes the outcome: "+what, prog.Lisp()+" script "+scriptName(sc), "without stepper: "+outStr(plain)+"\nwith stepper:    "+outStr(got))
						return
					}
					if plain.IsErr && got.IsErr && plain.ErrMsg != got.ErrMsg {
						r.ViolationCase("stepper changes the error returned to the caller: "+what, prog.Lisp()+" script "+scriptName(sc), "without stepper: "+plain.ErrMsg+"\nwith stepper:    "+got.ErrMsg)
						return
					}
				}
			},
		}
		// the same comparison under a context that has ended, or that the program ends itself: what a program
		// computes includes where it is stopped
		var cancelNow func()
		endedProgs := []string{
			"(do (t! 1) (t! 2) 3)",
			"(try (do (t! 1) (throw 2)) (catch e (t! e) 5) (finally (t! :fin)))",
			"(do (def f (fn [n] (if (< n 1) (t! :end) (do (t! n) (f (- n 1)))))) (f 3))",
			"(do (t! 1) (cancel!) (t! 2) 3)",
			"(do (def f (fn [n] (if (< n 1) (t! :end) (do (t! n) (if (= n 2) (cancel!)) (f (- n 1)))))) (f 3))",
			"(let [z (do (t! 1) (cancel!))] (t! 2))",
			"(do (defmacro mm (fn [a] (list (quote do) (quote (cancel!)) a))) (t! 0) (mm (t! 1)) (t! 2))",
			"[(t! 1) (cancel!) (t! 2)]",
		}
		endedKinds := []string{"cancelled before the evaluation starts", "deadline already passed", "live (the program may end it itself with a Go builtin)"}
		famE := &vf.Family{
			Name:   "programs-under-an-ended-context",
			Bounds: fmt.Sprintf("%d fixed programs (sequences, try/catch/finally, a recursive function, a macro; five of them end their own context through a Go builtin half way) x 3 contexts (cancelled before the start, deadline already passed, live) x every stepper script: value or error text and the ordered effects must be those of the run without a stepper", len(endedProgs)),
			Setup: func(t string) {
				setup(t)
				call.CallOverrideFN(rg.base, "cancel!", func() (types.MalType, error) {
					if cancelNow != nil {
						cancelNow()
					}
					return nil, nil
				})
			},
			N: func(t string) int64 { tier = t; return int64(len(endedProgs) * len(endedKinds)) },
			Describe: func(i int64) string {
				return endedProgs[i/3] + " under a context " + endedKinds[i%3] + " x every stepper script"
			},
			Run: func(i int64, r *vf.Rec) {
				prog, kind := endedProgs[i/3], int(i%3)
				ast, rerr := lisp.READ(prog, types.NewCursorFile("c18"), nil)
				if rerr != nil {
					r.Violation("harness: program does not read", rerr.Error())
					return
				}
				run := func(script []int) string {
					var ctx context.Context
					var cancel func()
					switch kind {
					case 0:
						ctx, cancel = context.WithCancel(context.Background())
						cancel()
					case 1:
						ctx, cancel = context.WithDeadline(context.Background(), time.Now().Add(-time.Hour))
					default:
						ctx, cancel = context.WithCancel(context.Background())
					}
					defer cancel()
					cancelNow = cancel
					defer func() { cancelNow = nil }()
					rg.tracer.Reset()
					scope := env.NewSubordinateEnv(rg.base)
					lisp.VerifResetStepFlags()
					lisp.Stepper = nil
					if script != nil {
						calls := 0
						lisp.Stepper = func(a types.MalType, e types.EnvType) debuggertypes.Command {
							cmd := script[calls%len(script)]
							calls++
							return c18Cmds[cmd]
						}
					}
					res, err, p := lx.Eval(ctx, ast, scope)
					lisp.Stepper = nil
					lisp.VerifResetStepFlags()
					r.Exec(1)
					var tr []V
					for _, t := range rg.tracer.Log {
						tr = append(tr, model.FromImpl(t))
					}
					switch {
					case p != nil:
						return "panic " + p.String()
					case err != nil:
						return "error " + err.Error() + " with effects " + traceStr(tr)
					}
					return "value " + model.FromImpl(res).String() + " with effects " + traceStr(tr)
				}
				plain := run(nil)
				r.NT()
				r.Outcome("without stepper: " + strings.SplitN(plain, " ", 2)[0])
				for _, sc := range scriptsOf() {
					if got := run(sc); got != plain {
						r.ViolationCase("stepper changes the outcome of a program whose context ends", prog+" under a context "+endedKinds[kind]+", script "+scriptName(sc), "without stepper: "+plain+"\nwith stepper:    "+got)
						return
					}
				}
			},
		}
		return &vf.Check{
			ID: "C18", Level: "model_checking",
			Rule:        "every program of the bounded spaces is run on the real EVAL without a stepper and under every scripted stepper command sequence (flags reset and read through a test-only export); result, error (thrown payload and the error's full text, position included) and ordered effect trace must be identical; for every (t! sym) form handed to the callback the symbol is resolved in the scope handed along and must equal the effect that follows; the visited (flag state x command) pairs of the stepping machine are reported in outcomes; non-trivial = program with effects",
			Assumptions: []string{"text printed by the 'next' command is not a program effect", "programs terminate within the host stack (bounded recursion)"},
			Families:    []*vf.Family{fam, famE},
		}
	})
}
