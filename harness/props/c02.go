package props

import (
	"context"
	"fmt"
	"strings"

	"github.com/jig/lisp/env"
	"github.com/jig/lisp/lib/call"
	"github.com/jig/lisp/types"

	"verifharness/internal/lx"
	"verifharness/internal/model"
	"verifharness/internal/vf"
)

// kinds tracked statically so that only type-correct operations are generated
const (
	kV = iota // vector
	kL        // list
	kM        // map
	kS        // set
	kP        // the _PACKAGES_ map (only observed)
)

type c02op struct {
	name string
	args []int // bitmask of accepted kinds per value argument
	res  func(argKinds []int) int
	text func(args []string, c int) string // lisp text; c = fresh constant
	goOp func(e types.EnvType, c int)      // Go-side operation instead of lisp text
}

const (
	mV   = 1 << kV
	mL   = 1 << kL
	mM   = 1 << kM
	mS   = 1 << kS
	mSeq = mV | mL
)

func same(ak []int) int { return ak[0] }
func toL(ak []int) int  { return kL }
func toV(ak []int) int  { return kV }
func c02ops() []c02op {
	f := fmt.Sprintf
	return []c02op{
		{"conj", []int{mSeq | mS}, same, func(a []string, c int) string {
			if strings.HasPrefix(a[0], "s") {
				return f(`(conj %s "k%d")`, a[0], c)
			}
			return f("(conj %s %d)", a[0], c)
		}, nil},
		{"conj2", []int{mSeq}, same, func(a []string, c int) string { return f("(conj %s %d %d)", a[0], c, c+1) }, nil},
		{"conj-map", []int{mM}, same, func(a []string, c int) string { return f("(conj %s :c%d %d)", a[0], c, c) }, nil},
		{"concat", []int{mSeq, mSeq}, toL, func(a []string, c int) string { return f("(concat %s %s)", a[0], a[1]) }, nil},
		{"concat-lit", []int{mSeq}, toL, func(a []string, c int) string { return f("(concat %s [%d])", a[0], c) }, nil},
		{"concat3", []int{mSeq}, toL, func(a []string, c int) string { return f("(concat %s [%d] (list %d))", a[0], c, c+1) }, nil},
		{"concat-empty-first", []int{mSeq}, toL, func(a []string, c int) string { return f("(concat () %s [%d])", a[0], c) }, nil},
		{"apply-concat-empty-first", []int{mSeq}, toL, func(a []string, c int) string { return f("(apply concat (list (list) %s (list %d)))", a[0], c) }, nil},
		{"swap-keeps-rest-args-1", nil, func([]int) int { return kL }, func(a []string, c int) string {
			return f("(do (swap! at1 (fn [old & evs] (keep! evs) evs) %d %d) (deref at1))", c, c+1)
		}, nil},
		{"swap-keeps-rest-args-2", nil, func([]int) int { return kL }, func(a []string, c int) string {
			return f("(do (swap! at2 (fn [old & evs] (keep! evs) evs) %d %d) (deref at2))", c, c+1)
		}, nil},
		// a swap! whose update function makes its first attempt stale (it resets the atom itself), keeping
		// the argument list of every attempt: the list kept during the superseded attempt must stay as it was
		{"swap-retry-keeps-args", nil, func([]int) int { return kL }, func(a []string, c int) string {
			return f("(do (reset! at1 0) (swap! at1 (fn [& xs] (keep! xs) (if (= (first xs) 0) (do (reset! at1 1) :stale) xs)) %d) (deref at1))", c)
		}, nil},
		// closures made in successive iterations of a self tail call, each capturing the loop's parameters:
		// what a closure returns later must be what its captured binding held when it was made
		{"closures-over-loop-parameters", []int{mSeq}, toL, func(a []string, c int) string {
			return f("(map (fn [g] (g)) (loopcap %s []))", a[0])
		}, nil},
		{"closures-over-loop-parameters-do", []int{mSeq}, toL, func(a []string, c int) string {
			return f("(map (fn [g] (g)) (loopcapdo %s {} 0))", a[0])
		}, nil},
		// a closure captures a parameter; a let in tail position of the same function body then shadows
		// that name with a value derived from it
		{"closure-then-shadowing-let", []int{mSeq}, toL, func(a []string, c int) string {
			return f("(shadowcap %s %d)", a[0], c)
		}, nil},
		{"closure-then-shadowing-let-in-let", []int{mSeq}, toL, func(a []string, c int) string {
			return f("(let [s %s g (keepfn! (fn [] s) s)] (let [s (conj s %d)] (list (g) s)))", a[0], c)
		}, nil},
		// a handler whose catch symbol has the name of a binding of the frame the try stands in: the binding
		// (and a closure made over it before) is as it was once the handler is done
		{"catch-under-the-name-of-a-binding", []int{mSeq | mM | mS}, same, func(a []string, c int) string {
			return f("(do (try (throw %d) (catch %s (str %s))) %s)", c, a[0], a[0], a[0])
		}, nil},
		{"catch-under-the-name-of-a-let-binding", []int{mSeq | mM | mS}, same, func(a []string, c int) string {
			return f("(let [s %s g (keepfn! (fn [] s) s)] (try (throw %d) (catch s (keep! s))) (try (throw {:code %d}) (catch s 0)) (g) s)", a[0], c, c)
		}, nil},
		// code held as data (quoted, or built with list) and then evaluated, with macro calls in operand
		// position: evaluating it leaves the data as it was
		{"eval-quoted-code-with-macro-calls", []int{mSeq}, toL, func(a []string, c int) string {
			return f("(let [code (quote (list %d (cond false 1 true 2) (-> 1 (+ 2)) (or nil 3)))] (keep! code) (keep! (first (rest (rest code)))) (eval code) (eval code) (concat code %s))", c, a[0])
		}, nil},
		{"eval-built-code-with-macro-calls", []int{mSeq}, toL, func(a []string, c int) string {
			return f("(let [inner (list (quote cond) false 1 true (list (quote quote) %s)) code (list (quote list) %d inner (list (quote and) 1 inner))] (keep! inner) (keep! code) (eval code) (eval code) code)", a[0], c)
		}, nil},
		// an error object made from a bound map, then marshalled / caught and looked at
		{"marshal-error-of-map", []int{mM}, same, func(a []string, c int) string {
			return f("(do (try (hash-map (new-error %s)) (catch e 0)) (try (throw %s) (catch e (str e))) %s)", a[0], a[0], a[0])
		}, nil},
		{"map-rest-fn", []int{mSeq}, toL, func(a []string, c int) string { return f("(map (fn [& xs] (keep! xs) xs) %s)", a[0]) }, nil},
		{"apply-rest-fn", []int{mSeq}, toL, func(a []string, c int) string { return f("(apply (fn [x & xs] (keep! xs) xs) %d %s)", c, a[0]) }, nil},
		{"cons", []int{mSeq}, toL, func(a []string, c int) string { return f("(cons %d %s)", c, a[0]) }, nil},
		{"assoc-vec", []int{mV}, same, func(a []string, c int) string { return f("(assoc %s 0 %d)", a[0], c) }, nil},
		{"assoc-map", []int{mM}, same, func(a []string, c int) string { return f("(assoc %s :a %d :c%d %d)", a[0], c, c, c) }, nil},
		{"assoc-set", []int{mS}, same, func(a []string, c int) string { return f(`(assoc %s "k%d")`, a[0], c) }, nil},
		// an empty map put inside a map (the inner map is a value of its own: a later assoc-in / update-in
		// through it must build a new inner map, not fill the existing one)
		{"assoc-map-empty-inner", []int{mM}, same, func(a []string, c int) string { return f("(assoc %s :n {} :c%d {})", a[0], c) }, nil},
		{"dissoc-map", []int{mM}, same, func(a []string, c int) string { return f("(dissoc %s :a)", a[0]) }, nil},
		{"dissoc-set", []int{mS}, same, func(a []string, c int) string { return f(`(dissoc %s "a")`, a[0]) }, nil},
		{"subvec01", []int{mV}, same, func(a []string, c int) string { return f("(subvec %s 0 1)", a[0]) }, nil},
		{"subvec1", []int{mV}, same, func(a []string, c int) string { return f("(subvec %s 1)", a[0]) }, nil},
		{"subvec-empty-window", []int{mV}, same, func(a []string, c int) string { return f("(subvec %s 1 1)", a[0]) }, nil},
		{"rest", []int{mSeq}, toL, func(a []string, c int) string { return f("(rest %s)", a[0]) }, nil},
		{"vec", []int{mSeq}, toV, func(a []string, c int) string { return f("(vec %s)", a[0]) }, nil},
		{"seq", []int{mSeq}, toL, func(a []string, c int) string { return f("(seq %s)", a[0]) }, nil},
		{"take", []int{mSeq}, toL, func(a []string, c int) string { return f("(take 2 %s)", a[0]) }, nil},
		{"take-last", []int{mSeq}, toL, func(a []string, c int) string { return f("(take-last 2 %s)", a[0]) }, nil},
		{"drop", []int{mSeq}, toL, func(a []string, c int) string { return f("(drop 1 %s)", a[0]) }, nil},
		{"drop-last", []int{mSeq}, toL, func(a []string, c int) string { return f("(drop-last 1 %s)", a[0]) }, nil},
		{"merge", []int{mM, mM}, same, func(a []string, c int) string { return f("(merge %s %s)", a[0], a[1]) }, nil},
		{"merge-lit", []int{mM}, same, func(a []string, c int) string { return f("(merge %s {:a %d})", a[0], c) }, nil},
		{"rename-keys", []int{mM}, same, func(a []string, c int) string { return f("(rename-keys %s {:a :z%d})", a[0], c) }, nil},
		{"with-meta", []int{mSeq | mM | mS}, same, func(a []string, c int) string { return f("(with-meta %s {:m %d})", a[0], c) }, nil},
		{"assoc-in-map", []int{mM}, same, func(a []string, c int) string { return f("(assoc-in %s [:a] %d)", a[0], c) }, nil},
		{"assoc-in-map2", []int{mM}, same, func(a []string, c int) string { return f("(assoc-in %s [:n :o] %d)", a[0], c) }, nil},
		{"assoc-in-vec", []int{mV}, same, func(a []string, c int) string { return f("(assoc-in %s [0] %d)", a[0], c) }, nil},
		{"update-vec", []int{mV}, same, func(a []string, c int) string { return f("(update %s 0 (fn [o] %d))", a[0], c) }, nil},
		{"update-map", []int{mM}, same, func(a []string, c int) string { return f("(update %s :a (fn [o] %d))", a[0], c) }, nil},
		{"update-in-map", []int{mM}, same, func(a []string, c int) string { return f("(update-in %s [:a] (fn [o] %d))", a[0], c) }, nil},
		{"update-in-vec", []int{mV}, same, func(a []string, c int) string { return f("(update-in %s [0] (fn [o] %d))", a[0], c) }, nil},
		{"apply-conj", []int{mSeq}, same, func(a []string, c int) string { return f("(apply conj %s [%d])", a[0], c) }, nil},
		{"apply-concat", []int{mSeq}, toL, func(a []string, c int) string { return f("(apply concat %s [[%d]])", a[0], c) }, nil},
		{"map-identity", []int{mSeq}, toL, func(a []string, c int) string { return f("(map (fn [o] o) %s)", a[0]) }, nil},
		{"qq-splice-front", []int{mSeq}, toL, func(a []string, c int) string { return f("`(~@%s %d)", a[0], c) }, nil},
		{"qq-splice-back", []int{mSeq}, toL, func(a []string, c int) string { return f("`(%d ~@%s)", c, a[0]) }, nil},
		{"qq-splice-vec", []int{mSeq}, toV, func(a []string, c int) string { return f("`[~@%s %d]", a[0], c) }, nil},
		{"qq-splice-2", []int{mSeq, mSeq}, toL, func(a []string, c int) string { return f("`(~@%s ~@%s)", a[0], a[1]) }, nil},
		{"macro-rest-concat", []int{mSeq}, toL, func(a []string, c int) string { return f("(mxq %s %d)", a[0], c) }, nil},
		{"fn-rest-concat", []int{mSeq}, toL, func(a []string, c int) string { return f("(frest %s %d)", a[0], c) }, nil},
		{"register-go-fn", nil, func([]int) int { return kP }, nil, func(e types.EnvType, c int) {
			call.CallOverrideFN(e, fmt.Sprintf("hfn%d", c), func() (types.MalType, error) { return nil, nil })
		}},
	}
}

type c02step struct {
	op   int
	args []int // indexes into names
}

type c02hist struct {
	steps []c02step
}

var c02seedText = []string{
	"(def v0 [1 2 3])",                // literal: len 3, spare capacity through eval_ast's append
	"(def l1 (list 1 2 3))",           // list builtin
	"(def l2 (quote (1 2 3)))",        // the reader's own array
	"(def m3 {:a 1})",                 // map
	`(def s4 #{"a"})`,                 // set
	"(def v5 (subvec [1 2 3 4] 0 2))", // window over a larger array
	"(def pk _PACKAGES_)",             // registry map (mutated by registration)	// longer vectors that came out of a copying builtin (Go's allocator rounds a copy of 17 or 33
	// elements up to a larger size class: spare capacity that literals of small length never have)
	"(def v7 (assoc [1 2 3 4 5 6 7 8 9 10 11 12 13 14 15 16 17] 0 9))",
	"(def v8 (update (vec (range 0 33)) 0 (fn [o] 9)))",
}
var c02seedNames = []string{"v0", "l1", "l2", "m3", "s4", "v5", "pk", "v7", "v8"}
var c02seedKinds = []int{kV, kL, kL, kM, kS, kV, kP, kV, kV}

const c02prelude = `(do
 (def at1 (atom nil))
 (def at2 (atom nil))
 (defmacro mxq (fn [s & xs] (list 'concat s (list 'quote (concat xs (quote (77)))))))
 (def frest (fn [s & xs] (concat xs s)))
 (def shadowcap (fn [s c] (let [g (keepfn! (fn [] s) s)] (let [s (conj s c)] (list (g) s)))))
 (def loopcap (fn [s acc] (if (empty? s) acc (loopcap (rest s) (conj acc (keepfn! (fn [] s) s))))))
 (def loopcapdo (fn [s m n] (do (if (empty? s) [(keepfn! (fn [] m) m)] (loopcapdo (rest s) (assoc m n (first s)) (+ n 1)))))))`

// successors enumerates all type-correct next steps given the kinds of existing names.
func c02successors(ops []c02op, kinds []int) []c02step {
	var out []c02step
	for oi, op := range ops {
		switch len(op.args) {
		case 0:
			out = append(out, c02step{op: oi})
		case 1:
			for a, k := range kinds {
				if op.args[0]&(1<<k) != 0 {
					out = append(out, c02step{oi, []int{a}})
				}
			}
		case 2:
			for a, ka := range kinds {
				if op.args[0]&(1<<ka) == 0 {
					continue
				}
				for b, kb := range kinds {
					if op.args[1]&(1<<kb) != 0 {
						out = append(out, c02step{oi, []int{a, b}})
					}
				}
			}
		}
	}
	return out
}

func c02resKind(ops []c02op, st c02step, kinds []int) int {
	ak := make([]int, len(st.args))
	for i, a := range st.args {
		ak[i] = kinds[a]
	}
	return ops[st.op].res(ak)
}

// c02prefixes enumerates all histories of exactly depth d (statically, by kinds).
func c02prefixes(ops []c02op, d int) [][]c02step {
	var out [][]c02step
	var rec func(cur []c02step, kinds []int)
	rec = func(cur []c02step, kinds []int) {
		if len(cur) == d {
			out = append(out, append([]c02step{}, cur...))
			return
		}
		for _, st := range c02successors(ops, kinds) {
			rec(append(cur, st), append(append([]int{}, kinds...), c02resKind(ops, st, kinds)))
		}
	}
	rec(nil, c02seedKinds)
	return out
}

func prefixName(k int) string { return [...]string{"v", "l", "m", "s", "p"}[k] }

type c02run struct {
	ops   []c02op
	base  types.EnvType
	names []string
	kinds []int
	snap  []string // canonical form at bind time
	made  []string // how each name was made (for signatures)
	scope types.EnvType
	text  []string
}

// c02kept: values that user code received during an operation and kept (the keep! builtin):
// each with its canonical form at that moment. They are "captured" values in the property's
// sense and are re-inspected after every step like the bindings.
type c02keptVal struct {
	v    types.MalType
	snap string
}

var c02kept []c02keptVal

// c02keptFn: closures together with the canonical form of the value their captured binding held
// when they were made (the keepfn! builtin); calling the closure later must give that value.
type c02keptFnVal struct {
	f    types.MalType
	snap string
}

var c02keptFns []c02keptFnVal

func c02installKeep(base types.EnvType) {
	call.CallOverrideFN(base, "keep!", func(v types.MalType) (types.MalType, error) {
		c02kept = append(c02kept, c02keptVal{v, model.FromImpl(v).String()})
		return nil, nil
	})
	call.CallOverrideFN(base, "keepfn!", func(f, v types.MalType) (types.MalType, error) {
		c02keptFns = append(c02keptFns, c02keptFnVal{f, model.FromImpl(v).String()})
		return f, nil
	})
}

func (c *c02run) canon(name string) string {
	v, err := c.scope.Get(types.Symbol{Val: name})
	if err != nil {
		return "UNBOUND"
	}
	return model.FromImpl(v).String()
}

func (c *c02run) start() {
	c.scope = env.NewSubordinateEnv(c.base)
	c.names = append([]string{}, c02seedNames...)
	c.kinds = append([]int{}, c02seedKinds...)
	c.snap, c.made, c.text = nil, nil, nil
	c02kept = nil
	c02keptFns = nil
	for i, s := range c02seedText {
		if _, err, p := lx.Eval(nil, lx.MustRead(s), c.scope); err != nil || p != nil {
			panic(fmt.Sprint("c02 seed failed: ", s, err, p))
		}
		c.snap = append(c.snap, c.canon(c02seedNames[i]))
		c.made = append(c.made, "seed:"+c02seedNames[i])
		c.text = append(c.text, s)
	}
}

// apply performs one step and re-inspects every earlier binding.
// Returns a violation signature+detail or "".
func (c *c02run) apply(st c02step, r *vf.Rec) (sig, detail string) {
	op := c.ops[st.op]
	k := c02resKind(c.ops, st, c.kinds)
	name := fmt.Sprintf("%s%d", prefixName(k), len(c.names))
	konst := 10 * (len(c.names) + 1)
	var stepText string
	if op.goOp != nil {
		op.goOp(c.scope, konst)
		stepText = fmt.Sprintf("<Go: call.CallOverrideFN(env, \"hfn%d\", ...)>", konst)
		lx.Eval(nil, lx.MustRead(fmt.Sprintf("(def %s _PACKAGES_)", name)), c.scope)
	} else {
		an := make([]string, len(st.args))
		for i, a := range st.args {
			an[i] = c.names[a]
		}
		stepText = fmt.Sprintf("(def %s (try %s (catch e :err)))", name, op.text(an, konst))
		_, err, p := lx.Eval(nil, lx.MustRead(stepText), c.scope)
		if p != nil {
			return "panic in " + op.name + ": " + panicSig(p), p.String()
		}
		if err != nil {
			return "harness step failed", err.Error()
		}
	}
	r.Exec(1)
	c.text = append(c.text, stepText)
	// re-inspect every earlier binding
	for i, n := range c.names {
		if now := c.canon(n); now != c.snap[i] {
			victim := c.made[i]
			return fmt.Sprintf("%s changed an existing value made by %s", op.name, victim),
				fmt.Sprintf("after %s, %s changed from %s to %s\nhistory:\n  %s", stepText, n, c.snap[i], now, strings.Join(c.text, "\n  "))
		}
	}
	for _, kv := range c02kept {
		if now := model.FromImpl(kv.v).String(); now != kv.snap {
			return fmt.Sprintf("%s changed a value that a function had received and kept", op.name),
				fmt.Sprintf("after %s, a kept argument list changed from %s to %s\nhistory:\n  %s", stepText, kv.snap, now, strings.Join(c.text, "\n  "))
		}
	}
	for _, kf := range c02keptFns {
		res, err := types.Apply(context.Background(), kf.f, nil)
		if err != nil {
			return fmt.Sprintf("%s: a closure over a captured binding fails later", op.name), err.Error()
		}
		if now := model.FromImpl(res).String(); now != kf.snap {
			return fmt.Sprintf("%s changed what a closure's captured binding holds", op.name),
				fmt.Sprintf("after %s, a closure made while its captured binding held %s now returns %s\nhistory:\n  %s", stepText, kf.snap, now, strings.Join(c.text, "\n  "))
		}
	}
	c.names = append(c.names, name)
	c.kinds = append(c.kinds, k)
	c.snap = append(c.snap, c.canon(name))
	c.made = append(c.made, op.name)
	return "", ""
}

func init() {
	vf.Register("C02", func() *vf.Check {
		ops := c02ops()
		var base types.EnvType
		var prefixes [][]c02step
		var tier string
		depth := func() int {
			if tier == "thorough" {
				return 3
			}
			return 2
		}
		setup := func(t string) {
			tier = t
			base = lx.NewFullEnv()
			c02installKeep(base)
			if _, err, p := lx.Eval(nil, lx.MustRead(c02prelude), base); err != nil || p != nil {
				panic(fmt.Sprint("c02 prelude: ", err, p))
			}
		}
		pfx := func() [][]c02step {
			if prefixes == nil {
				prefixes = c02prefixes(ops, depth()-1)
			}
			return prefixes
		}
		descr := func(h []c02step) string {
			var parts []string
			for _, st := range h {
				parts = append(parts, fmt.Sprintf("%s%v", ops[st.op].name, st.args))
			}
			return strings.Join(parts, " ; ")
		}
		fam := &vf.Family{
			Name:     "histories",
			Bounds:   fmt.Sprintf("all histories of exactly 2 (quick) / 3 (thorough) type-correct operations over %d operation kinds applied to any earlier value (9 seeds incl. literal vector with spare capacity, reader array, subvec window, _PACKAGES_, vectors of 17 and 33 elements returned by assoc / update); a case = one prefix, expanded by every possible last operation", len(ops)),
			Setup:    setup,
			N:        func(t string) int64 { tier = t; return int64(len(pfx())) },
			Describe: func(i int64) string { return descr(pfx()[i]) + " ; <every next operation>" },
			Run: func(i int64, r *vf.Rec) {
				h := pfx()[i]
				c := &c02run{ops: ops, base: base}
				// kinds after the prefix (static)
				kinds := append([]int{}, c02seedKinds...)
				for _, st := range h {
					kinds = append(kinds, c02resKind(ops, st, kinds))
				}
				lasts := c02successors(ops, kinds)
				for _, last := range lasts {
					c.start()
					failed := false
					for _, st := range append(append([]c02step{}, h...), last) {
						if sig, det := c.apply(st, r); sig != "" {
							// attribute only violations of the last step here; earlier steps'
							// violations belong to (and are reported by) shorter prefixes too
							r.ViolationCase(sig, descr(append(append([]c02step{}, h...), last)), det)
							failed = true
							break
						}
					}
					if !failed {
						r.Outcome("held")
					}
				}
				r.NT()
			},
		}
		return &vf.Check{
			RacePass: c02RacePass,
			ID:       "C02", Level: "model_checking",
			Rule:        "explicit enumeration of all operation histories up to the depth bound on the real builtins (each history replayed on a fresh scope); after every step every earlier binding is re-read through env.Get and its canonical form must equal the form recorded when it was bound; non-trivial = every case (each expands to all last steps)",
			Assumptions: []string{"operations outside the listed kinds and histories deeper than the bound", "values are compared by canonical printed structure (list/vector distinguished, map/set order removed)"},
			Families:    []*vf.Family{fam},
		}
	})
}
