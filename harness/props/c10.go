package props

import (
	"context"
	"errors"
	"fmt"
	"sort"
	"strings"
	"time"

	"github.com/jig/lisp/env"
	"github.com/jig/lisp/lib/call"
	"github.com/jig/lisp/lib/concurrent"
	"github.com/jig/lisp/types"
	"github.com/jig/lisp/verifhook"
	"github.com/jig/lisp/zverif/vcore"

	"verifharness/internal/explore"
	"verifharness/internal/lx"
	"verifharness/internal/vf"
)

var futBodies = []struct{ name, text string }{
	{"returns", `(fn [] (t! 1) (probe!) 7)`},
	{"throws", `(fn [] (t! 1) (probe!) (throw "boom"))`},
	{"waits-for-cancel", `(fn [] (t! 1) (probe!) (wait-cancel!) 8)`},
	{"ignores-cancel", `(fn [] (t! 1) (probe!) (busy!))`},
}

var futOps = []struct{ name, text string }{
	{"deref", "(deref f)"},
	{"done?", "(future-done? f)"},
	{"cancelled?", "(future-cancelled? f)"},
	{"cancel", "(future-cancel f)"},
	{"deref-cancellable", "(deref f)"}, // evaluated under the scenario's cancellable caller context
	{"end-caller-context", ""},         // harness operation: that caller context ends (like a deadline passing)
}

type futOp struct {
	thread, op int
	inv, ret   int
	result     string
	done       bool
}

type c10state struct {
	scope       types.EnvType
	fut         *concurrent.Future
	clock       int
	hist        []*futOp
	bodyEnd     int // clock value when the body goroutine reached the delivery of its outcome (0: not yet)
	bodyExit    int // clock value when the body goroutine ended (0: not yet)
	sent        bool
	bodyRuns    int
	waiting     bool            // body is parked in wait-cancel!
	bodyCtx     context.Context // the context the body runs under (recorded by the probe! builtin)
	callersDone int
	callerCtx   *c10callerCtx // context of the deref-cancellable operations
	selectNext  bool          // the running thread just passed Deref's wait: its select comes next
	tornDown    bool          // the harness released a body that waits for a cancellation nobody issued
	teardownAt  int           // clock value at that moment: operations returning later are not judged
}

func init() {
	vf.Register("C10", func() *vf.Check {
		var base types.EnvType
		var tier string
		var cur *c10state // state of the running execution (builtins need it)
		setup := func(t string) {
			tier = t
			base = lx.NewFullEnv()
			call.CallOverrideFN(base, "t!", func(c types.MalType) (types.MalType, error) {
				if cur != nil {
					cur.bodyRuns++
				}
				return c, nil
			})
			call.CallOverrideFN(base, "wait-cancel!", func(ctx context.Context) (types.MalType, error) {
				if s := vcore.Active(); s != nil {
					if cur != nil {
						cur.waiting = true
					}
					s.Await(func() bool { return ctx.Err() != nil }, "wait-cancel")
					if cur != nil {
						cur.waiting = false
					}
				}
				return nil, errors.New("body saw its context end")
			})
			call.CallOverrideFN(base, "probe!", func(ctx context.Context) (types.MalType, error) {
				if cur != nil {
					cur.bodyCtx = ctx
				}
				return nil, nil
			})
			call.CallOverrideFN(base, "busy!", func() (types.MalType, error) {
				if s := vcore.Active(); s != nil {
					s.Point("busy-1")
					s.Point("busy-2")
				}
				return 9, nil
			})
			// observe the body goroutine's progress through the hook labels
			origPoint, origExit, origAwait := verifhook.PointFn, verifhook.ExitFn, verifhook.AwaitFn
			verifhook.AwaitFn = func(pred func() bool, why string) {
				if cur != nil {
					cur.selectNext = false
				}
				origAwait(pred, why)
				if cur != nil && why == "future.deref" {
					cur.selectNext = true // nothing is scheduled between the wait and Deref's select
				}
			}
			verifhook.PointFn = func(l string) {
				if cur != nil {
					cur.selectNext = false
				}
				if l == "future.send" && cur != nil {
					cur.bodyEnd, cur.sent = cur.clock, true
				}
				origPoint(l)
			}
			verifhook.ExitFn = func(tok any) {
				if cur != nil {
					cur.bodyExit = cur.clock
					if cur.bodyExit == 0 {
						cur.bodyExit = -1
					}
				}
				origExit(tok)
			}
		}
		// caller plans
		type plan struct {
			body    int
			threads [][]int
		}
		var plans []plan
		plansOf := func() []plan {
			if plans != nil {
				return plans
			}
			n := len(futOps)
			var seqs [][]int
			for l := 1; l <= 3; l++ {
				sp := seqSpace{n, l}
				for i := int64(0); i < sp.size(); i++ {
					if d := sp.unrank(i); len(d) == l {
						seqs = append(seqs, d)
					}
				}
			}
			for b := range futBodies {
				for _, s := range seqs {
					plans = append(plans, plan{b, [][]int{s}})
				}
				seen := map[string]bool{}
				for _, s1 := range seqs {
					for _, s2 := range seqs {
						if len(s1) > 2 || len(s2) > 2 {
							continue
						}
						if tier != "thorough" && len(s1)+len(s2) > 3 {
							continue
						}
						k1, k2 := fmt.Sprint(s1), fmt.Sprint(s2)
						if k1 > k2 {
							k1, k2 = k2, k1
						}
						if seen[k1+k2] {
							continue
						}
						seen[k1+k2] = true
						plans = append(plans, plan{b, [][]int{s1, s2}})
					}
				}
				{
					// three callers, one op each (quick: only the triples in which a caller context ends while
					// a deref made under it may be waiting, which needs a third party)
					sp := seqSpace{n, 3}
					for i := int64(0); i < sp.size(); i++ {
						if d := sp.unrank(i); len(d) == 3 && d[0] <= d[1] && d[1] <= d[2] {
							if tier != "thorough" && !(d[1] == 4 && d[2] == 5 || d[0] == 4 && d[2] == 5) {
								continue
							}
							plans = append(plans, plan{b, [][]int{{d[0]}, {d[1]}, {d[2]}}})
						}
					}
				}
			}
			return plans
		}
		planStr := func(p plan) string {
			var ts []string
			for ti, t := range p.threads {
				var os []string
				for _, o := range t {
					os = append(os, futOps[o].name)
				}
				ts = append(ts, fmt.Sprintf("T%d: %s", ti, strings.Join(os, " ")))
			}
			return "future body " + futBodies[p.body].name + " | " + strings.Join(ts, " || ")
		}
		mkScenario := func(p plan) *explore.Scenario {
			return &explore.Scenario{
				Name:        planStr(p),
				VisibleAtom: true, VisibleHook: true, VisibleEnv: false,
				Setup: func() any {
					st := &c10state{}
					cur = st
					st.scope = env.NewSubordinateEnv(base)
					st.callerCtx = &c10callerCtx{st: st, open: make(chan struct{}), closed: c10closed}
					return st
				},
				Threads: func(state any) []func() {
					st := state.(*c10state)
					var bodies []func()
					for ti, ops := range p.threads {
						ti, ops := ti, ops
						bodies = append(bodies, func() {
							s := vcore.Active()
							if ti == 0 {
								// the creator: (def f (future-call BODY)) inside a managed thread
								res, err, pn := lx.Eval(context.Background(), lx.MustRead("(def f (future-call "+futBodies[p.body].text+"))"), st.scope)
								if err != nil || pn != nil {
									panic(fmt.Sprint("future creation failed: ", err, pn))
								}
								st.fut = res.(*concurrent.Future)
							} else {
								s.Await(func() bool { return st.fut != nil }, "future-created")
							}
							for oi, o := range ops {
								h := &futOp{thread: ti, op: o}
								st.hist = append(st.hist, h)
								if oi == 0 {
									s.Point("op-start")
								} else {
									s.Point("op-next") // boundary between two operations of one thread: a free yield
								}
								st.clock++
								h.inv = st.clock
								opCtx := context.Background()
								if futOps[o].name == "deref-cancellable" {
									opCtx = st.callerCtx
								}
								var res types.MalType
								var err error
								var pn *lx.Panic
								if futOps[o].name == "end-caller-context" {
									st.callerCtx.ended = true
									res = "ended"
								} else {
									res, err, pn = lx.Eval(opCtx, lx.MustRead(futOps[o].text), st.scope)
								}
								st.clock++
								h.ret = st.clock
								h.done = true
								switch {
								case pn != nil:
									h.result = "PANIC " + pn.String()
								case err != nil:
									h.result = "error:" + shortErr(err)
								default:
									h.result = fmt.Sprint(res)
								}
							}
							st.callersDone++
						})
					}
					return bodies
				},
				// when everybody is blocked only because the body waits for a cancellation that no
				// (successful) future-cancel issued, the harness releases the body so that no
				// goroutine is left behind; what returns after that moment is not judged
				Idle: func(state any, s *vcore.Sched) bool {
					st := state.(*c10state)
					if st.tornDown || !st.waiting || st.fut == nil {
						return false
					}
					// only a state that is legitimately stuck is torn down: the body waits for a cancellation and
					// callers wait in deref for its outcome; anything else blocked (a lock, say) is a deadlock
					for _, why := range s.BlockedNow() {
						if why != "wait-cancel" && why != "future.deref" {
							return false
						}
					}
					for _, h := range st.hist {
						if h.done && h.op == 3 && h.result == "true" {
							return false
						}
					}
					st.tornDown, st.teardownAt = true, st.clock
					st.fut.CancelFunc()
					return true
				},
				BlockedOK: func(state any, s *vcore.Sched) bool {
					st := state.(*c10state)
					// legitimate: the body waits for a cancellation nobody issued (successfully), and
					// callers wait in deref for an outcome that therefore never comes
					for _, why := range s.BlockedT {
						if why != "wait-cancel" && why != "future.deref" {
							return false
						}
					}
					if !st.waiting {
						return false
					}
					for _, h := range st.hist {
						if h.done && h.op == 3 && h.result == "true" {
							return false // a cancel succeeded: the body must have been released
						}
					}
					return true
				},
				DeadlockSig: func(state any, s *vcore.Sched) string {
					var why []string
					for _, w := range s.BlockedT {
						why = append(why, w)
					}
					sort.Strings(why)
					return "future operations block forever: " + strings.Join(why, " + ")
				},
				Check: func(state any, s *vcore.Sched) (string, string, string) {
					st := state.(*c10state)
					if st.tornDown {
						for _, h := range st.hist {
							if h.done && h.ret > st.teardownAt {
								h.done = false // returned only because of the harness's teardown
							}
						}
					}
					var obs []string
					for _, h := range st.hist {
						r := h.result
						if !h.done {
							r = "pending"
						}
						obs = append(obs, fmt.Sprintf("T%d:%s=%s", h.thread, futOps[h.op].name, r))
					}
					o := strings.Join(obs, ",")
					render := func() string {
						var p []string
						for _, h := range st.hist {
							r := h.result
							if !h.done {
								r = "<pending>"
							}
							p = append(p, fmt.Sprintf("T%d %s [%d,%d] -> %s", h.thread, futOps[h.op].name, h.inv, h.ret, r))
						}
						return strings.Join(p, "; ")
					}
					fail := func(sig string) (string, string, string) { return sig, render(), o }
					cancelledOK := false
					for _, h := range st.hist {
						if h.done && h.op == 3 && h.result == "true" {
							cancelledOK = true
						}
					}
					if st.bodyRuns > 1 || (st.bodyRuns == 0 && !cancelledOK && st.bodyExit != 0) {
						return fail(fmt.Sprintf("future body ran %d times", st.bodyRuns))
					}
					var derefs, cancels []*futOp
					for _, h := range st.hist {
						if !h.done {
							continue
						}
						if strings.HasPrefix(h.result, "PANIC") {
							return fail("panic in future operation " + futOps[h.op].name)
						}
						switch h.op {
						case 0:
							derefs = append(derefs, h)
						case 3:
							cancels = append(cancels, h)
						case 4:
							// the caller's context had ended: the timeout error or the outcome are both fine,
							// but an outcome must agree with what the other derefs return
							if !strings.HasPrefix(h.result, "error:timeout") {
								derefs = append(derefs, h)
							}
						}
					}
					// every reader gets the same outcome
					for _, d := range derefs[min1(len(derefs)):] {
						if d.result != derefs[0].result {
							return fail("derefs of one future disagree")
						}
					}
					for _, x := range st.hist {
						if !x.done {
							continue
						}
						for _, y := range st.hist {
							if !y.done || y.inv < x.ret {
								continue
							}
							// y was invoked after x returned
							if x.op == y.op && (x.op == 1 || x.op == 2) && x.result == "true" && y.result == "false" {
								return fail(futOps[x.op].name + " went back from true to false")
							}
							if x.op == 0 && y.op == 1 && y.result == "false" {
								return fail("future-done? false after a deref of that future returned")
							}
							if x.op == 3 && x.result == "true" && y.op == 2 && y.result == "false" {
								return fail("future-cancelled? false after a successful future-cancel")
							}
							if x.op == 3 && x.result == "true" && y.op == 1 && y.result == "false" {
								return fail("future-done? false after a successful future-cancel")
							}
						}
					}
					anyTrue := false
					for _, c := range cancels {
						if c.result == "true" {
							anyTrue = true
						}
					}
					for _, c := range cancels {
						// the body's own code ended at bodyEnd; delivery follows it
						if c.result == "false" && (!st.sent || st.bodyEnd >= c.ret) {
							// false although the body was certainly still running when cancel returned
							earlier := false
							for _, c2 := range cancels {
								if c2 != c && c2.result == "true" && c2.inv < c.ret {
									earlier = true
								}
							}
							if !earlier {
								return fail("future-cancel returned false on a future still running")
							}
						}
					}
					if !anyTrue {
						for _, h := range st.hist {
							if h.done && h.op == 2 && h.result == "true" {
								return fail("future-cancelled? true although no future-cancel succeeded")
							}
						}
						if st.fut.Cancelled {
							return fail("cancelled flag set although no future-cancel succeeded")
						}
						if st.bodyCtx != nil && st.bodyCtx.Err() != nil && !st.tornDown {
							return fail("the body's context was cancelled although no future-cancel succeeded")
						}
					}
					// the status operations taken together: done?, cancelled? and cancel results must admit one order,
					// consistent with real time (an operation that returned before another was invoked comes first),
					// over the sequential future {running -> completed | cancelled}: the body's completion may be placed
					// anywhere (or nowhere); cancel on a running future cancels it and answers true, on a completed one
					// answers false and changes nothing, on a cancelled one answers true; a cancel still pending may
					// have taken effect or not
					{
						type fop struct {
							inv, ret int
							kind     int
							res      string
							pending  bool
						}
						var fops []fop
						for _, h := range st.hist {
							if h.op < 1 || h.op > 3 {
								continue
							}
							if h.done {
								fops = append(fops, fop{h.inv, h.ret, h.op, h.result, false})
							} else if h.op == 3 && h.inv > 0 {
								fops = append(fops, fop{h.inv, 1 << 30, h.op, "", true})
							}
						}
						var rec func(placed uint, state int) bool
						rec = func(placed uint, state int) bool {
							all := true
							for i, x := range fops {
								if placed&(1<<uint(i)) == 0 && !x.pending {
									all = false
								}
							}
							if all {
								return true
							}
							for i, x := range fops {
								if placed&(1<<uint(i)) != 0 {
									continue
								}
								first := true
								for j, y := range fops {
									if j != i && placed&(1<<uint(j)) == 0 && y.ret < x.inv {
										first = false
									}
								}
								if !first {
									continue
								}
								// the body's completion may happen just before this operation
								starts := []int{state}
								if state == 0 {
									starts = append(starts, 1)
								}
								for _, s0 := range starts {
									s1, want := s0, ""
									switch x.kind {
									case 1:
										want = fmt.Sprint(s0 != 0)
									case 2:
										want = fmt.Sprint(s0 == 2)
									case 3:
										if s0 == 0 {
											s1 = 2
										}
										want = fmt.Sprint(s1 == 2)
									}
									if (x.pending || want == x.res) && rec(placed|1<<uint(i), s1) {
										return true
									}
								}
							}
							return false
						}
						if len(fops) > 0 && len(fops) <= 8 && !rec(0, 0) {
							return fail("future-done? / future-cancelled? / future-cancel results admit no single order of one future's status (not linearizable)")
						}
					}
					// a cancel invoked after the future completed (body goroutine finished) and without
					// an earlier successful cancel must return false and change nothing
					for _, c := range cancels {
						if c.result == "true" && st.bodyExit != 0 && st.bodyExit < c.inv {
							earlier := false
							for _, c2 := range cancels {
								if c2 != c && c2.result == "true" && c2.inv < c.inv {
									earlier = true
								}
							}
							if !earlier {
								return fail("future-cancel returned true on a future that had completed without being cancelled")
							}
						}
					}
					return "", "", o
				},
			}
		}
		fam := &vf.Family{
			Name:     "future-scenarios",
			Bounds:   "4 future bodies (returns, throws, waits for cancellation, ignores cancellation) x caller plans: one thread with every sequence of 1-3 operations over {deref, done?, cancelled?, cancel, deref under a cancellable caller context, end of that caller context}; two threads with 1-2 operations each (quick: <=3 operations in total); three threads x 1 operation (quick: only triples with a cancellable deref and the end of its caller context); per scenario all interleavings at the hook points of lib/concurrent (spawn, deliver, deliver->flag, cancel check/set, deref wait/re-deposit) up to preemption bound 2 (quick) / 3 (thorough)",
			Setup:    setup,
			Timeout:  120 * time.Second,
			N:        func(t string) int64 { tier = t; return int64(len(plansOf())) },
			Describe: func(i int64) string { return planStr(plansOf()[i]) },
			Run: func(i int64, r *vf.Rec) {
				p := plansOf()[i]
				bound, maxEx := 2, 20000
				if tier == "thorough" {
					bound, maxEx = 3, 200000
				}
				res := explore.Explore(mkScenario(p), bound, maxEx, time.Now().Add(60*time.Second))
				r.Exec(int64(res.Execs))
				if res.WithSwitch > 0 {
					r.NT()
				}
				if res.Internal != "" {
					r.Violation(res.Internal, planStr(p))
					return
				}
				if !res.Complete {
					r.Cap(fmt.Sprintf("scenario capped before completing bound %d", bound))
				} else {
					r.Outcome(fmt.Sprintf("scenarios completed at preemption bound %d", res.BoundCompleted))
				}
				r.Outcome(fmt.Sprintf("distinct observed outcomes per scenario: %d", minInt(len(res.Outcomes), 9)))
				for _, v := range res.Violations {
					r.Violation(v.Sig, fmt.Sprintf("first seen at preemption bound %d\n%s", v.Bound, v.Detail))
				}
			},
		}
		// derefs under caller deadlines on the virtual clock (the rig of C07): a deref returns the
		// outcome whenever it becomes available before the caller's deadline, however close to it
		dlRig := &c07rig{}
		dlShapes := []c07shape{
			{name: "deref-of-sleeping-future", text: "(deref (future (do (sleep 50) (t! 1) 7)))", future: true},
			{name: "deref-after-own-sleep", text: "(let [f (future (do (sleep 40) (t! 1) 7))] (sleep 20) (t! 2) (deref f))", future: true},
			{name: "deref-twice", text: "(let [f (future (do (sleep 30) 7))] (list (deref f) (deref f)))", future: true},
			{name: "deref-of-throwing-future", text: "(let [f (future (do (sleep 30) (throw 3)))] (deref f))", future: true},
			{name: "deref-of-future-made-earlier", pre: "(def early (future (do (sleep 60) 9)))", text: "(deref early)", future: true},
		}
		famDl := &vf.Family{
			Name:     "derefs-under-deadlines",
			Bounds:   "5 programs that deref a future whose body sleeps and then returns or throws, run once without a deadline (completion at poll T of the virtual clock) and then under a caller deadline at every instant k in (T+3, 2T+10] and at 10T, 40T: the deref must deliver the same outcome and effects as without a deadline",
			Setup:    func(t string) { tier = t; dlRig.setup() },
			Timeout:  60 * time.Second,
			N:        func(string) int64 { return int64(len(dlShapes)) },
			Describe: func(i int64) string { return "deadline after completion: " + dlShapes[i].text },
			Run: func(i int64, r *vf.Rec) {
				sh := dlShapes[i]
				ref := dlRig.run(sh, "deadline", 0)
				r.Exec(1)
				r.NT()
				if ref.hang || ref.ticks >= c07Fuel-10 || strings.HasPrefix(ref.outcome, "panic") || ref.outcome == "timeout" {
					r.Violation("deref of a completing future does not return", fmt.Sprintf("%s: %s after %d polls (hang=%v)", sh.text, ref.outcome, ref.ticks, ref.hang))
					return
				}
				var ks []int64
				for k := ref.ticks + 4; k <= 2*ref.ticks+10; k++ {
					ks = append(ks, k)
				}
				ks = append(ks, 10*ref.ticks, 40*ref.ticks)
				for _, k := range ks {
					o := dlRig.run(sh, "deadline", k)
					r.Exec(1)
					if o.outcome != ref.outcome || strings.Join(o.trace, " ") != strings.Join(ref.trace, " ") {
						r.ViolationCase("deref under a deadline that lies after the outcome became available does not deliver it", fmt.Sprintf("deadline at poll %d: %s", k, sh.text),
							fmt.Sprintf("without deadline: %s after %d polls, effects %v; with it: %s after %d polls, effects %v", ref.outcome, ref.ticks, ref.trace, o.outcome, o.ticks, o.trace))
						return
					}
				}
				r.Outcome("outcome delivered under every later deadline")
			},
		}
		return &vf.Check{
			RacePass: c10RacePass,
			ID:       "C10", Level: "model_checking",
			Rule:        "every scenario (future body x caller threads x operations) is explored by the controlled scheduler over the real lib/concurrent with hook points in the deliver->flag, check->set and take->re-deposit windows; on every complete execution: the body ran exactly once, all derefs agree, status predicates are monotone in real-time order, done? is true after any deref returned and after a successful cancel, cancelled? is true after a successful cancel and never without one, cancel does not return false on a running future, and nothing blocks forever except derefs of a future that legitimately never completes; non-trivial = scenario with a context switch inside an operation",
			Assumptions: []string{"plain (unsynchronised) flag accesses are atomic under the cooperative scheduler; data races on them are the race pass's job", "the caller context of the cancellable derefs is the harness's own type: Deref's select between an ended context and an available outcome is decided by the scheduler (outcome arm forced, context arm drawn and re-run until drawn)"},
			Families:    []*vf.Family{fam, famDl},
		}
	})
}

var c10closed = func() chan struct{} { c := make(chan struct{}); close(c); return c }()

// c10callerCtx is the caller context of the deref-cancellable operations. It ends when the
// end-caller-context operation runs. Deref selects between that context and the future's
// outcome; when both are ready Go's select picks one at random, and the property must hold
// for either pick. The harness owns that choice: at the select (the Done call that follows
// Deref's wait) with an outcome available and the context ended, the scheduler chooses the
// arm. The outcome arm is forced by handing the select a channel that is not ready (to the
// code this is the context ending an instant after the select). The context arm cannot be
// forced, only drawn: an execution in which the select is seen taking the outcome arm
// instead (its next hook point is the re-deposit) is discarded and run again.
type c10callerCtx struct {
	st     *c10state
	ended  bool
	open   chan struct{}
	closed chan struct{}
}

func (c *c10callerCtx) Deadline() (time.Time, bool) { return time.Time{}, false }
func (c *c10callerCtx) Value(any) any               { return nil }
func (c *c10callerCtx) Err() error {
	if c.ended {
		return context.Canceled
	}
	return nil
}
func (c *c10callerCtx) Done() <-chan struct{} {
	if !c.ended {
		return c.open
	}
	sel := c.st.selectNext
	c.st.selectNext = false
	f := c.st.fut
	if s := vcore.Active(); sel && s != nil && f != nil && (len(f.ErrChan) > 0 || len(f.ValChan) > 0) {
		if s.Choose(2, "deref.select") == 0 {
			return c.open // the select takes the outcome
		}
		s.ForbidNext("deref.redeposit") // the select is to take the context arm
	}
	return c.closed
}

func min1(n int) int {
	if n > 1 {
		return 1
	}
	return n
}

func shortErr(err error) string {
	s := err.Error()
	if i := strings.LastIndex(s, ": "); i >= 0 {
		s = s[i+2:]
	}
	if len(s) > 40 {
		s = s[:40]
	}
	return s
}
