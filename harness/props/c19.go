package props

import (
	"context"
	"fmt"
	"os"
	"path/filepath"
	"strings"

	lisp "github.com/jig/lisp"
	"github.com/jig/lisp/env"
	"github.com/jig/lisp/types"

	"verifharness/internal/enum"
	"verifharness/internal/lx"
	"verifharness/internal/model"
	"verifharness/internal/vclock"
	"verifharness/internal/vf"
)

// tokensOf renders a program value as a token list (independent of the printer).
func tokensOf(v V, out *[]string) {
	switch v.K {
	case model.KList, model.KVec:
		o, c := "(", ")"
		if v.K == model.KVec {
			o, c = "[", "]"
		}
		*out = append(*out, o)
		for _, e := range v.Elems {
			tokensOf(e, out)
		}
		*out = append(*out, c)
	case model.KMap:
		*out = append(*out, "{")
		for _, e := range v.Ents {
			tokensOf(e.K.Value(), out)
			tokensOf(e.V, out)
		}
		*out = append(*out, "}")
	default:
		*out = append(*out, v.Lisp())
	}
}

type c19layout struct {
	name string
	// render joins the top-level forms' token lists into one text
	render func(forms [][]string) string
}

func joinForms(forms [][]string, tokSep, formSep, tail string) string {
	var parts []string
	for _, f := range forms {
		parts = append(parts, strings.Join(f, tokSep))
	}
	return strings.Join(parts, formSep) + tail
}

var c19Layouts = []c19layout{
	{"single-line", func(f [][]string) string { return joinForms(f, " ", " ", "") }},
	{"form-per-line", func(f [][]string) string { return joinForms(f, " ", "\n", "\n") }},
	{"comment-between-tokens", func(f [][]string) string { return joinForms(f, " ; c (\n", "\n;; note )\n", "\n") }},
	{"blank-lines", func(f [][]string) string { return "\n\n" + joinForms(f, " ", "\n\n\n", "\n\n") }},
	{"crlf", func(f [][]string) string { return joinForms(f, " ", "\r\n", "\r\n") }},
	{"no-final-newline", func(f [][]string) string { return joinForms(f, "\n", "\n", "") }},
	{"trailing-comment-no-newline", func(f [][]string) string { return joinForms(f, " ", "\n", " ; the end") }},
	{"tabs-and-leading-comment", func(f [][]string) string { return "; header\n" + joinForms(f, "\t", "\n\t", "\n") }},
}

type c19rig struct {
	*evalRig
	dir string
}

type c19result struct {
	out   implOutcome
	binds string
	note  string
}

func (rg *c19rig) bindsOf(scope types.EnvType) string {
	var p []string
	for _, n := range []string{"x", "y"} {
		if v, err := scope.Get(types.Symbol{Val: n}); err == nil {
			p = append(p, n+"="+model.FromImpl(v).String())
		} else {
			p = append(p, n+" unbound")
		}
	}
	return strings.Join(p, " ")
}

func (rg *c19rig) outcome(res types.MalType, err error, p *lx.Panic) implOutcome {
	var out implOutcome
	for _, t := range rg.tracer.Log {
		out.Trace = append(out.Trace, model.FromImpl(t))
	}
	out.Panic = p
	if p != nil {
		return out
	}
	if err != nil {
		out.IsErr, out.Err, out.ErrMsg = true, err, err.Error()
		if ev, ok := lx.ErrValue(err); ok {
			if _, isGo := ev.(error); !isGo {
				out.Thrown, out.Payload = true, model.FromImpl(ev)
			}
		}
		return out
	}
	out.Val = model.FromImpl(res)
	return out
}

// evalAST: evaluate one AST (already a (do ...) of the forms) in a fresh scope
func (rg *c19rig) evalAST(ast types.MalType) c19result {
	rg.tracer.Reset()
	scope := env.NewSubordinateEnv(rg.base)
	// fuel: a program that does not terminate (a macro expanding to its own call) is skipped by the caller
	ctx := vclock.NewPollCtx(20000)
	res, err, p := lx.Eval(ctx, ast, scope)
	out := rg.outcome(res, err, p)
	out.Fuel = ctx.Cancelled()
	return c19result{out: out, binds: rg.bindsOf(scope)}
}

func wrapDo(text string) string { return "(do " + text + "\n)" }

func init() {
	vf.Register("C19", func() *vf.Check {
		var rg *c19rig
		var tier string
		setup := func(t string) {
			tier = t
			rg = &c19rig{evalRig: newEvalRig(true)}
			rg.dir = filepath.Join(vf.VerifDir, ".work", "c19", fmt.Sprint(os.Getpid()))
			os.MkdirAll(rg.dir, 0o755)
		}
		var g *enum.Grammar
		fW := 2
		gOf := func() *enum.Grammar {
			if g == nil {
				ps := c01Prods(false)
				catchStr := func(fault V) V {
					return form("try", fault, form("catch", sym("e"), form("str", sym("e"))))
				}
				ps = append(ps,
					leaf("catch-arity", catchStr(model.List(form("fn", model.Vec(sym("a")), sym("a"))))),
					leaf("catch-unbound", catchStr(sym("zz"))),
					leaf("catch-builtin", catchStr(form("nth", model.Vec(), model.Int(1)))),
					leaf("catch-non-fn", catchStr(model.List(model.Int(1)))),
					// an argument that fails inside a special form (the error is not yet a lisp error there)
					leaf("catch-special-form-in-argument", catchStr(form("list", model.Int(1), form("let", model.Int(5), model.Int(6))))))
				ps = append(ps, leaf("(throw 3)", form("throw", model.Int(3))), leaf("(t! x)", form("t!", sym("x"))),
					leaf(`"s"`, model.Str("a b")), leaf("{:k 1}", mp(kw("k"), model.Int(1))),
					leaf("string-with-tab-and-cr", model.Str("a\tb\rc")))
				g = enum.New([][]enum.Prod{ps}, fW)
			}
			return g
		}
		nForms := func() int64 { return gOf().Count(0, fW) }
		// a program is a sequence of 2 (quick) or 2..3 (thorough) top-level forms
		// thorough adds all triples of weight-1 forms
		nLeaf := func() int64 { return gOf().Count(0, 1) }
		// macro programs: a template macro defined in one top-level form and called in two further ones
		// (same macro, same shape of call, different operands)
		var mg *enum.Grammar
		mgOf := func() *enum.Grammar {
			if mg == nil {
				mg = c12CodeGrammar(3)
			}
			return mg
		}
		mW := func() int {
			if tier == "thorough" {
				return 3
			}
			return 2
		}
		nOps := int64(len(c12Operands))
		nMac := func() int64 { return mgOf().Count(0, mW()) * nOps * nOps }
		// programs whose macro expansions change between two evaluations of the same call site (the
		// expander reads a global or an atom, or the macro is redefined in between)
		fixedProgs := [][]string{
			{"(def k 5)", "(defmacro mk (fn [] k))", "(def f (fn [] (mk)))", "(def r1 (f))", "(def k 50)", "(list r1 (f) (t! (f)))"},
			{"(defmacro m2 (fn [] 1))", "(def g (fn [] (t! (m2))))", "(def r1 (g))", "(defmacro m2 (fn [] 2))", "(list r1 (g))"},
			{"(def a (atom 0))", "(defmacro ma (fn [] (swap! a inc)))", "(def h (fn [] (ma)))", "(list (h) (h) (t! (deref a)))"},
			// an unquote of a deref in a template (printed and read back it must not become a splice), and a
			// failed future that is the value of a top-level form (the REPL prints it) and is dereferenced again
			{"(def a (atom 41))", "(defmacro md (fn [] (quasiquote (+ 1 (unquote (deref a))))))", "(def y (md))", "(list y (quote (unquote (deref q))))"},
			{"(def job (future (throw \"boom\")))", "(def x (try (deref job) (catch e (str \"first: \" e))))", "job", "(def y (try (deref job) (catch e (str \"again: \" e))))", "(list x y)"},
			{"(def job (future 7))", "(deref job)", "job", "(str job)", "(def y (deref job))", "y"},
			// what a handler receives for an argument that failed inside a special form, a builtin, a lookup
			{"(def look (fn [th] (try (th) (catch e [(string? e) (map? e) (str e)]))))", "(look (fn [] (list 1 (let 5 6))))", "(look (fn [] (list 1 (if))))", "(look (fn [] (vector (nth [] 3))))", "(look (fn [] (list zz)))", "(look (fn [] (list (def))))"},
			// a macro whose expansion carries a list it built with metadata on it
			{"(defmacro mt (fn [a] (list (quote quote) (with-meta (list a 2) {:tag a}))))", "(def v (mt 1))", "(list v (meta v) (meta (mt 3)))", "(defmacro mw (fn [a] (list (quote first) (list (quote quote) (list (with-meta (list a) {:unit \"m\"}))))))", "(meta (mw 5))"},
			{"(def k 1)", "(defmacro mq (fn [v] (list (quote +) v k)))", "(def f (fn [v] (mq v)))", "(def x (f 1))", "(def k 10)", "(def y (f 1))", "(list x y)"},
			// functions and macros as operands of = (whatever the answer is, it is the same on every route: a
			// fn form has a source position on some routes and none on others)
			{"(def keep (fn [x] x))", "(def bump (fn [x] (+ x 1)))", "(defmacro m1 (fn [a] a))", "(defmacro m2 (fn [a] (list (quote do) a)))",
				"(def cmp (fn [a b] (try (= a b) (catch e :err))))", "(list (cmp keep bump) (cmp keep keep) (cmp [keep] [bump]) (cmp (fn [] 1) (fn [] 2)) (cmp m1 m2) (cmp {:k keep} {:k bump}) (t! (cmp bump keep)))"},
		}
		nFixed := int64(len(fixedProgs))
		size := func() int64 {
			n := nForms()
			if tier == "thorough" {
				m := nLeaf()
				return n*n + nMac() + nFixed + m*m*m
			}
			return n*n + nMac() + nFixed
		}
		progOf := func(i int64) []V {
			n := nForms()
			if i < n*n {
				return []V{gOf().Unrank(0, i/n), gOf().Unrank(0, i%n)}
			}
			i -= n * n
			if i < nMac() {
				body := form("quasiquote", mgOf().Unrank(0, i/(nOps*nOps)))
				a, b := c12Operands[(i/nOps)%nOps], c12Operands[i%nOps]
				return []V{
					form("defmacro", sym("mac"), form("fn", model.Vec(sym("p"), sym("&"), sym("r")), form("t!", model.Int(7)), body)),
					model.List(sym("mac"), a), model.List(sym("mac"), b)}
			}
			i -= nMac()
			if i < nFixed {
				var out []V
				for _, t := range fixedProgs[i] {
					out = append(out, model.FromImpl(lx.MustRead(t)))
				}
				return out
			}
			i -= nFixed
			m := nLeaf()
			return []V{gOf().Unrank(0, i/(m*m)), gOf().Unrank(0, (i/m)%m), gOf().Unrank(0, i%m)}
		}
		fam := &vf.Family{
			Name:   "programs-x-layouts-x-routes",
			Bounds: fmt.Sprintf("programs: every sequence of 2 top-level forms, each a core-form program of weight <=2 (thorough: also every sequence of 3 weight-1 forms) (C01 grammar + throw, (t! x), a string, a string containing TAB and CR, a map literal), and every template macro (C12 code grammar, weight <=2, thorough <=3; the expander logs an effect) defined in one top-level form and called in two further ones over every pair of 7 operands, and 10 fixed programs (functions and macros compared with =; a macro whose expansion carries a list with metadata; the expansion of one call site changes between two evaluations: expander reading a global / an atom, macro redefined; what a handler receives for an argument that failed in a special form, a builtin or a lookup); %d layouts (single line, form per line, comments between all tokens, blank lines, CRLF, no final newline, trailing comment without newline, tabs + leading comment); routes: READ with module, READ with nil cursor, cursor-free AST built from Go, READ(PRINT(ast)), forms one by one through REPL (named cursor / nil cursor), one wrapping do, load-file from a file", len(c19Layouts)),
			Setup:  setup,
			N:      func(t string) int64 { tier = t; return size() },
			Describe: func(i int64) string {
				var p []string
				for _, f := range progOf(i) {
					p = append(p, f.Lisp())
				}
				return strings.Join(p, " ")
			},
			Run: func(i int64, r *vf.Rec) {
				forms := progOf(i)
				var toks [][]string
				for _, f := range forms {
					var t []string
					tokensOf(f, &t)
					toks = append(toks, t)
				}
				doForm := model.List(append([]V{sym("do")}, forms...)...)
				// reference: cursor-free AST built from Go (what L-notation produces)
				ref := rg.evalAST(model.ToImpl(doForm))
				r.Exec(1)
				if ref.out.Panic != nil {
					r.Note("skipped: panics (C04)")
					return
				}
				if ref.out.Fuel {
					r.Note("skipped: program does not terminate (fuel)")
					return
				}
				if len(ref.out.Trace) > 0 {
					r.NT()
				}
				cmp := func(route, layout, text string, got c19result, cmpValue bool) bool {
					r.Exec(1)
					same := sameOutcome(ref.out, got.out)
					if !cmpValue && !ref.out.IsErr && !got.out.IsErr && got.out.Panic == nil {
						same = sameTrace(ref.out.Trace, got.out.Trace)
					}
					if same && got.binds == ref.binds {
						return true
					}
					r.ViolationCase(fmt.Sprintf("route %s differs from the cursor-free AST (layout %s)", route, layout), fmt.Sprintf("%q", text),
						fmt.Sprintf("reference: %s | %s\n%s: %s | %s %s", outStr(ref.out), ref.binds, route, outStr(got.out), got.binds, got.note))
					return false
				}
				for li, lay := range c19Layouts {
					text := lay.render(toks)
					// READ with module / with nil cursor, wrapped in one do
					for _, withMod := range []bool{true, false} {
						var cur *types.Position
						name := "READ(nil cursor)+do"
						if withMod {
							cur = types.NewCursorFile("mod")
							name = "READ(module)+do"
						}
						ast, err := lisp.READ(wrapDo(text), cur, nil)
						if err != nil {
							r.ViolationCase("program text does not read (layout "+lay.name+")", fmt.Sprintf("%q", wrapDo(text)), err.Error())
							return
						}
						if !cmp(name, lay.name, text, rg.evalAST(ast), true) {
							return
						}
						if withMod {
							// the AST re-read from its own printed form
							ast2, err := lisp.READ(lisp.PRINT(ast), nil, nil)
							if err != nil {
								r.ViolationCase("printed program does not read back", lisp.PRINT(ast), err.Error())
								return
							}
							if !cmp("READ(PRINT(ast))", lay.name, text, rg.evalAST(ast2), true) {
								return
							}
						}
					}
					// forms one by one through REPL (each form rendered in this layout's token style), with a
					// named cursor and with no cursor at all (every form then starts at the same coordinates)
					for _, named := range []bool{true, false} {
						routeName := "forms one by one through REPL"
						if !named {
							routeName = "forms one by one through REPL (nil cursor)"
						}
						rg.tracer.Reset()
						scope := env.NewSubordinateEnv(rg.base)
						var last types.MalType
						var lerr error
						var lp *lx.Panic
						for _, ft := range toks {
							one := lay.render([][]string{ft})
							var cur *types.Position
							if named {
								cur = types.NewCursorFile("REPL")
							}
							lp = lx.Guard(func() { last, lerr = lisp.REPL(context.Background(), scope, one, cur) })
							if lp != nil || lerr != nil {
								break
							}
						}
						got := c19result{out: rg.outcome(nil, lerr, lp), binds: rg.bindsOf(scope)}
						if lerr == nil && lp == nil {
							// REPL returns the printed result: compare with the printed reference value
							if s, ok := last.(string); ok && !ref.out.IsErr {
								refPrinted := lisp.PRINT(model.ToImplLoose(ref.out.Val))
								got.out.Val = ref.out.Val
								if canonPrinted(s) != canonPrinted(refPrinted) && !strings.Contains(refPrinted, "<") {
									got.out.Val = model.Str("printed: " + s)
									got.note = "(expected printed " + refPrinted + ")"
								}
							}
						}
						if !cmp(routeName, lay.name, text, got, true) {
							return
						}
					}
					// load-file from a file, in its own root environment (quick: the four layouts
					// that differ at line ends; thorough: all)
					if tier == "thorough" || li == 2 || li == 4 || li == 5 || li == 6 {
						path := filepath.Join(rg.dir, "prog.lisp")
						os.WriteFile(path, []byte(text), 0o644)
						root := lx.NewFullEnv()
						rg.tracer.Install(root)
						rg.tracer.Reset()
						res, err, p := lx.Eval(context.Background(), types.List{Val: []types.MalType{types.Symbol{Val: "load-file"}, path}}, root)
						got := c19result{out: rg.outcome(res, err, p), binds: rg.bindsOf(root)}
						if err == nil && p == nil {
							if res != nil {
								got.note = "(load-file returned a non-nil value)"
								got.out.Val = model.Str("load-file returned " + model.FromImpl(res).String())
								cmp("load-file", lay.name, text, got, true)
								return
							}
						}
						if !cmp("load-file", lay.name, text, got, false) {
							return
						}
					}
				}
			},
		}
		// texts whose raw strings span lines: the line ends inside the string are part of the value, the
		// same on every route (here the routes are compared with READ under a module name)
		rawForms := [][]string{
			{"(def x ¬first@second¬)", "(def y [x ¬a@¬])", "(list x y)"},
			{"(def x ¬{\"a\": 1,@ \"b\": 2}¬)", "(def y (str x \"!\"))", "(str x y)"},
			{"(def x [¬a@¬ ¬@b¬ \"c\"])", "(def y (first x))", "(list x y)"},
		}
		eols := []struct{ name, s string }{{"LF", "\n"}, {"CRLF", "\r\n"}, {"CR LF inside the string only", "\r\n"}}
		rawFam := &vf.Family{
			Name: "raw-strings-across-line-ends", InProc: true,
			Bounds: fmt.Sprintf("%d programs whose multi-line raw strings contain a line end, written with LF, with CRLF everywhere, and with CRLF inside the string only; routes READ without cursor, printed form re-read, forms one by one through REPL, load-file, each compared with READ under a module name", len(rawForms)),
			Setup:  setup,
			N:      func(string) int64 { return int64(len(rawForms) * len(eols)) },
			Describe: func(i int64) string {
				return eols[i%int64(len(eols))].name + ": " + strings.Join(rawForms[i/int64(len(eols))], " ")
			},
			Run: func(i int64, r *vf.Rec) {
				forms := rawForms[i/int64(len(eols))]
				eol := eols[i%int64(len(eols))]
				r.NT()
				between := eol.s
				if eol.name == "CR LF inside the string only" {
					between = "\n"
				}
				var fs []string
				for _, f := range forms {
					fs = append(fs, strings.ReplaceAll(f, "@", eol.s))
				}
				text := strings.Join(fs, between) + between
				show := func(c c19result) string { return outStr(c.out) + " | " + c.binds }
				refAST, err := lisp.READ(wrapDo(text), types.NewCursorFile("mod"), nil)
				if err != nil {
					r.Violation("program text does not read", fmt.Sprintf("%q: %v", text, err))
					return
				}
				ref := rg.evalAST(refAST)
				r.Exec(1)
				cmp := func(route string, got c19result) {
					r.Exec(1)
					if show(got) != show(ref) {
						r.ViolationCase("route "+route+" differs from READ under a module name (raw string across line ends, "+eol.name+")", fmt.Sprintf("%q", text), "reference: "+show(ref)+"\n"+route+": "+show(got))
					}
				}
				if ast, err := lisp.READ(wrapDo(text), nil, nil); err == nil {
					cmp("READ(nil cursor)+do", rg.evalAST(ast))
				} else {
					r.Violation("program text does not read without a cursor", fmt.Sprintf("%q: %v", text, err))
				}
				if ast, err := lisp.READ(lisp.PRINT(refAST), nil, nil); err == nil {
					cmp("READ(PRINT(ast))", rg.evalAST(ast))
				} else {
					r.Violation("printed program does not read back", lisp.PRINT(refAST)+": "+err.Error())
				}
				{
					rg.tracer.Reset()
					scope := env.NewSubordinateEnv(rg.base)
					var lerr error
					var lp *lx.Panic
					for _, f := range fs {
						lp = lx.Guard(func() { _, lerr = lisp.REPL(context.Background(), scope, f+between, types.NewCursorFile("REPL")) })
						if lp != nil || lerr != nil {
							break
						}
					}
					got := c19result{out: rg.outcome(nil, lerr, lp), binds: rg.bindsOf(scope)}
					if lerr == nil && lp == nil {
						got.out.Val = ref.out.Val // REPL returns printed text; the bindings carry the comparison
					}
					cmp("forms one by one through REPL", got)
				}
				{
					path := filepath.Join(rg.dir, "raw prog.lisp")
					os.WriteFile(path, []byte(text), 0o644)
					root := lx.NewFullEnv()
					rg.tracer.Install(root)
					rg.tracer.Reset()
					_, err, p := lx.Eval(context.Background(), types.List{Val: []types.MalType{types.Symbol{Val: "load-file"}, path}}, root)
					got := c19result{out: rg.outcome(nil, err, p), binds: rg.bindsOf(root)}
					if err == nil && p == nil {
						got.out.Val = ref.out.Val // load-file returns nil by design; the bindings carry the comparison
					}
					cmp("load-file", got)
				}
			},
		}
		return &vf.Check{
			ID: "C19", Level: "model_checking",
			Rule:        "every program of the bounded space, rendered in every layout, is delivered through every route to the real reader/evaluator; result (or error kind and thrown payload), ordered effect trace and final bindings of x, y must equal those of the cursor-free AST built from Go; non-trivial = program with effects",
			Assumptions: []string{"load-file always returns nil, so that route is compared on error, trace and bindings", "REPL returns the printed result, compared as printed text with map order canonicalised"},
			Families:    []*vf.Family{fam, rawFam},
		}
	})
}

// canonPrinted: REPL prints maps in Go map order; compare order-insensitively by sorting characters
// of the printed form only when it contains a map.
func canonPrinted(s string) string {
	if !strings.Contains(s, "{") {
		return s
	}
	b := []byte(s)
	for i := 1; i < len(b); i++ {
		for j := i; j > 0 && b[j] < b[j-1]; j-- {
			b[j], b[j-1] = b[j-1], b[j]
		}
	}
	return string(b)
}
