package props

import (
	"errors"

	"github.com/jig/lisp/lib/call"
	"github.com/jig/lisp/types"
)

// Sentinel Go errors returned / panicked by harness builtins (C03).
var (
	ErrBoom = errors.New("boom-sentinel")
	ErrPan  = errors.New("pan-sentinel")
)

// installGoBuiltins registers Go builtins through the reflective binder:
// (boom!) returns a Go error, (pan!) panics with a Go error, (pans!) panics with a string.
func installGoBuiltins(e types.EnvType) {
	call.CallOverrideFN(e, "boom!", func() (types.MalType, error) { return nil, ErrBoom })
	call.CallOverrideFN(e, "pan!", func() (types.MalType, error) { panic(ErrPan) })
	call.CallOverrideFN(e, "sentinel", func() (types.MalType, error) { return ErrBoom, nil })
	call.CallOverrideFN(e, "pans!", func() (types.MalType, error) { panic("pans") })
}
