package props

import (
	"context"
	"errors"
	"fmt"
	"github.com/jig/lisp/lisperror"

	"github.com/jig/lisp/lib/call"
	"github.com/jig/lisp/types"
)

// Sentinel Go errors returned / panicked by harness builtins (C03).
var (
	ErrBoom = errors.New("boom-sentinel")
	ErrPan  = errors.New("pan-sentinel")
)

// installGoBuiltins registers Go builtins through the reflective binder:
// (boom!) returns a Go error, (pan!) panics with a Go error, (pans!) panics with a string.
func installGoBuiltins(e types.EnvType) {
	call.CallOverrideFN(e, "boom!", func() (types.MalType, error) { return nil, ErrBoom })
	call.CallOverrideFN(e, "pan!", func() (types.MalType, error) { panic(ErrPan) })
	call.CallOverrideFN(e, "sentinel", func() (types.MalType, error) { return ErrBoom, nil })
	call.CallOverrideFN(e, "pans!", func() (types.MalType, error) { panic("pans") })
	// a Go function registered as a bare types.Func (no binder, hence no recover around it) that panics
	e.Set(types.Symbol{Val: "rawpan!"}, types.Func{Fn: func(ctx context.Context, a []types.MalType) (types.MalType, error) { panic(ErrPan) }})
	// a Go builtin returning its own error that wraps the sentinel and a lisp error (what a builtin
	// does when a lisp callback it ran threw and it passes the failure on)
	call.CallOverrideFN(e, "boomw!", func() (types.MalType, error) {
		return nil, fmt.Errorf("%w: callback failed: %w", ErrBoom, lisperror.NewLispError("thrown inside", nil))
	})
}
