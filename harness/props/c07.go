package props

import (
	"context"
	"errors"
	"fmt"
	"runtime"
	"strings"
	"time"

	"github.com/jig/lisp/env"
	"github.com/jig/lisp/lib/call"
	"github.com/jig/lisp/types"
	"github.com/jig/lisp/verifhook"
	"github.com/jig/lisp/zverif/vclk"
	"github.com/jig/lisp/zverif/vcore"

	"verifharness/internal/lx"
	"verifharness/internal/model"
	"verifharness/internal/vf"
)

type c07shape struct {
	name    string
	text    string
	finally bool   // has a finally clause (a value outcome may be determined before the instant)
	handler bool   // a looping/sleeping body with a catch clause: under a deadline the handler must get to run
	future  bool   // needs the thread scheduler
	depth   int    // try nesting depth
	pre     string // evaluated first, in the same thread, under a context that never ends
	finRuns bool   // under a generous deadline the finally body must get to run (body or handler is quick)
}

const c07Prelude = `(do
 (def lp (fn [n] (lp (+ n 1))))
 (def lpt (fn [n] (t! n) (lpt (+ n 1))))
 (def rec (fn [n] (+ 1 (rec (+ n 1)))))
 (defmacro mm (fn [n] (list 'mm (+ n 1))))
 (defmacro spin (fn [] '(spin)))
 (defmacro ping (fn [] '(pong)))
 (defmacro pong (fn [] '(ping)))
 (defmacro again (fn [x] (quote (again 1))))
 (def a (atom 0)))`

// cancel: the caller cancels at the instant; deadline: the caller's deadline is the instant;
// cancel-under-deadline: the caller's context has a deadline far beyond everything and is cancelled at the instant
// deadline-reported-early: the context reports a deadline 20 polls earlier than it signals Done (the gap a real
// runtime has between a deadline passing and its timer being delivered); the instant is the signal
var c07Modes = []string{"cancel", "deadline", "cancel-under-deadline", "deadline-reported-early"}

// c07earlyCtx reports another deadline than the one its Done follows.
type c07earlyCtx struct {
	context.Context
	reported time.Time
}

func (c c07earlyCtx) Deadline() (time.Time, bool) { return c.reported, true }

func c07Shapes(tier string) []c07shape {
	sh := []c07shape{
		{name: "tail-loop", text: "(lp 0)"},
		{name: "tail-loop-with-effects", text: "(lpt 0)"},
		{name: "non-tail-recursion", text: "(rec 0)"},
		{name: "macro-self-expansion", text: "(mm 0)"},
		// macros that expand to their own call without calling anything while expanding
		{name: "macro-expanding-to-itself-quoted", text: "(spin)"},
		{name: "mutually-expanding-macros", text: "(ping)"},
		{name: "macro-expanding-to-itself-with-operand", text: "(again 5)"},
		{name: "handler-spins-in-macro-expansion", text: "(try (sleep 100000) (catch e (t! :h) (spin)))", handler: true, depth: 1},
		{name: "finally-spins-in-macro-expansion", text: "(try 5 (finally (t! :fin) (spin)))", finally: true, depth: 1},
		{name: "sleep", text: "(sleep 100000)"},
		{name: "sleeps-and-effects", text: "(do (sleep 30) (t! 1) (sleep 30) (t! 2) (sleep 30) (t! 3) (sleep 100000))"},
		{name: "let-if-do-loop", text: "(let [x 1] (if x (do (t! 1) (lp 0))))"},
		{name: "cond-or-loop", text: "(cond false 1 true (or nil (lp 0)))"},
		{name: "map-looping-closure", text: "(map (fn [x] (lp 0)) [1 2])"},
		{name: "apply-loop", text: "(apply lp [0])"},
		{name: "swap!-looping-function", text: "(swap! a (fn [x] (lp 0)))"},
		// a swap! whose update function makes its own round stale, for ever: every round ends with a look at the context
		{name: "swap!-that-loses-every-round", text: "(swap! a (fn [x] (reset! a (+ x 1)) x))"},
		{name: "swap!-that-loses-every-round-in-handler", text: "(try (throw 1) (catch e (t! :h) (swap! a (fn [x] (reset! a (+ x 1)) x))))", depth: 1},
		{name: "terminating", text: "(do (t! 1) (t! 2) 5)"},
		{name: "terminating-try-finally", text: "(try (do (t! 1) 5) (finally (t! :fin) 6))", finally: true, depth: 1},
		{name: "throw-then-handler-loops", text: "(try (throw 1) (catch e (t! :h) (lp 0)))", depth: 1},
		{name: "value-then-finally-loops", text: "(try 5 (finally (t! :fin) (lp 0)))", finally: true, depth: 1},
		{name: "future-body-loops", text: "(deref (future (lp 0)))", future: true},
		{name: "future-body-sleeps", text: "(deref (future (sleep 100000)))", future: true},
		{name: "future-deref-in-try", text: "(let [f (future (lp 0))] (try (deref f) (catch e (t! :h) 5)))", future: true, depth: 1},
		{name: "deref-of-future-made-under-another-context", pre: "(def slow (future (wait-forever!)))", text: "(deref slow)", future: true},
		{name: "deref-of-foreign-future-in-try", pre: "(def slow (future (wait-forever!)))", text: "(try (deref slow) (catch e (t! :h) 5) (finally (t! :fin) 6))", future: true, finally: true, depth: 1},
		// a second deref of a pending future while another evaluation (a future made under a context
		// that never ends) is already waiting in a deref of the same future
		{name: "deref-while-another-deref-waits", pre: "(do (def slow (future (wait-forever!))) (def g (future (deref slow))) (await-derefs! 1))", text: "(deref slow)", future: true},
		{name: "deref-while-another-deref-waits-in-try", pre: "(do (def slow (future (wait-forever!))) (def g (future (deref slow))) (await-derefs! 1))", text: "(try (deref slow) (catch e (t! :h) 5))", future: true, depth: 1},
		// terminating programs that wait: a deadline lying beyond their completion must change nothing
		{name: "terminating-sleep", text: "(do (sleep 50) (t! 1) 7)"},
		{name: "terminating-future-deref", text: "(deref (future (do (sleep 50) (t! 1) 7)))", future: true},
		{name: "terminating-future-deref-after-sleep", text: "(let [f (future (do (sleep 40) (t! 1) 7))] (sleep 20) (t! 2) (deref f))", future: true},
		{name: "terminating-future-throws", text: "(try (deref (future (do (sleep 30) (throw 3)))) (catch e (t! :h) e))", future: true, depth: 1},
		{name: "terminating-sleep-in-try", text: "(try (do (sleep 50) (t! 1) 7) (catch e (t! :h) 0) (finally (t! :fin)))", finally: true, depth: 1},
		// text in constructor notation read at run time, with a constructor name the program bound to a
		// builtin that waits: whatever read-string does with it, the wait afterwards ends with the context
		{name: "constructor-notation-read-at-run-time", text: "(do (try (read-string \"«nap 100000»\") (catch e (t! :h) nil)) (sleep 100000))", depth: 1},
		{name: "constructor-notation-read-in-handler", text: "(try (sleep 100000) (catch e (t! :h) (try (read-string \"«nap 100000»\") (catch e2 nil)) 5))", handler: true, depth: 1},
		// a future cancelled by the program and dereferenced afterwards (once, twice, in a handler)
		{name: "deref-of-cancelled-future", text: "(let [f (future (sleep 100000))] (future-cancel f) (sleep 10) (t! 1) (try (deref f) (catch e (t! :h) 5)))", future: true, depth: 1},
		{name: "deref-twice-of-cancelled-future", text: "(let [f (future (sleep 100000))] (future-cancel f) (try (deref f) (catch e (t! :h) 5)) (sleep 10) (try (deref f) (catch e (t! :h) 6)) (sleep 100000))", future: true, depth: 1},
		{name: "deref-of-cancelled-future-in-handler", text: "(let [f (future (sleep 100000))] (future-cancel f) (sleep 10) (try (throw 1) (catch e (t! :h) (try (deref f) (catch e2 5))) (finally (t! :fin))))", future: true, finally: true, depth: 1},
		{name: "future-loop-around-deref", text: "(let [f (future (lp 0))] (try (deref f) (catch e (t! :h) (lp 0)) (finally (t! :fin) (lp 0))))", future: true, finally: true, depth: 1},
	}
	// every (try P (catch e Q) (finally R)) with P, Q, R from the atoms; thorough: P may be a nested try
	atoms := []string{"(lp 0)", "(sleep 100000)", "5", "(lpt 0)"}
	mk := func(p, q, r string) string {
		return fmt.Sprintf("(try %s (catch e (t! :h) %s) (finally (t! :fin) %s))", p, q, r)
	}
	blocking := func(s string) bool { return s != "5" }
	for _, p := range atoms {
		for _, q := range atoms {
			for _, r := range atoms {
				// the finally body must run (once) whenever body or handler finish well before the
				// deadline: always when the handler is quick, since a looping body only gets 80%
				sh = append(sh, c07shape{name: "try/" + p + "/" + q + "/" + r, text: mk(p, q, r), finally: true, handler: blocking(p), depth: 1,
					finRuns: q == "5" || p == "5"})
			}
		}
	}
	for _, p := range atoms {
		for _, q := range atoms {
			sh = append(sh, c07shape{name: "try-catch/" + p + "/" + q, text: fmt.Sprintf("(try %s (catch e (t! :h) %s))", p, q), handler: blocking(p), depth: 1})
		}
	}
	inner := []string{mk("(lp 0)", "(lp 0)", "(lp 0)"), mk("(sleep 100000)", "5", "(lp 0)"), mk("(lpt 0)", "(lpt 0)", "5"), "(try (lp 0) (catch e (t! :h) 5))"}
	outerAtoms := []string{"(lp 0)", "5"}
	if tier == "thorough" {
		outerAtoms = atoms
		// every inner try over the atoms, not only the four picked above
		inner = nil
		for _, p := range atoms {
			for _, q := range atoms {
				inner = append(inner, fmt.Sprintf("(try %s (catch e (t! :h) %s))", p, q))
				for _, r := range atoms {
					inner = append(inner, mk(p, q, r))
				}
			}
		}
	}
	for _, in := range inner {
		for _, q := range outerAtoms {
			for _, r := range outerAtoms {
				sh = append(sh, c07shape{name: "nested-try", text: mk(in, q, r), finally: true, depth: 2})
				sh = append(sh, c07shape{name: "nested-try-in-handler", text: mk("(throw 1)", in, r), finally: true, depth: 2})
			}
		}
	}
	return sh
}

type c07obs struct {
	outcome    string // "value:..", "timeout", "error:..", "panic:.."
	ticks      int64  // clock when EVAL returned
	trace      []string
	stamps     []int64
	hang       bool
	allocAfter uint64 // heap bytes allocated between the cancellation instant and EVAL's return (when measured)
}

type c07rig struct {
	base         types.EnvType
	trace        []string
	stamp        []int64
	derefWaits   int  // derefs that reached their wait in this run (observed through the hook)
	measureAlloc bool // record the heap bytes allocated after the instant (deep-recursion family)
	allocAt      uint64
}

func (rg *c07rig) setup() {
	rg.base = lx.NewFullEnv()
	call.CallOverrideFN(rg.base, "wait-forever!", func(ctx context.Context) (types.MalType, error) {
		// parks (under the thread scheduler) until its own context ends
		if s := vcore.Active(); s != nil {
			s.Await(func() bool { return ctx.Err() != nil }, "wait-forever")
		}
		return nil, errors.New("context ended")
	})
	origAwait := verifhook.AwaitFn
	verifhook.AwaitFn = func(pred func() bool, why string) {
		if why == "future.deref" {
			rg.derefWaits++
		}
		origAwait(pred, why)
	}
	call.CallOverrideFN(rg.base, "await-derefs!", func(n int) (types.MalType, error) {
		// parks the caller until n derefs (of other threads) have reached their wait
		if s := vcore.Active(); s != nil {
			s.Await(func() bool { return rg.derefWaits >= n }, "await-derefs")
		}
		return nil, nil
	})
	// a name the reader would take for a constructor, bound (at the root, like a program's own top-level
	// definition) to a builtin that waits
	if _, err, p := lx.Eval(context.Background(), lx.MustRead("(def new-nap sleep)"), rg.base); err != nil || p != nil {
		panic("c07 setup")
	}
	call.CallOverrideFN(rg.base, "t!", func(c types.MalType) (types.MalType, error) {
		rg.trace = append(rg.trace, model.FromImpl(c).String())
		var t int64 = -1
		if clk := vclk.Active(); clk != nil {
			t = clk.Ticks()
		}
		rg.stamp = append(rg.stamp, t)
		return c, nil
	})
}

const c07Fuel = 1200

// run evaluates the shape with cancellation (mode "cancel") or a deadline (mode "deadline")
// at tick k (k = 0: never; only the safety fuel stops a non-terminating run).
func (rg *c07rig) run(sh c07shape, mode string, k int64) c07obs {
	scope := env.NewSubordinateEnv(rg.base)
	if _, err, p := lx.Eval(context.Background(), lx.MustRead(c07Prelude), scope); err != nil || p != nil {
		panic(fmt.Sprint("c07 prelude: ", err, p))
	}
	ast := lx.MustRead(sh.text)
	rg.trace, rg.stamp, rg.derefWaits = nil, nil, 0
	clk := vclk.Start()
	defer vclk.Stop()
	var ctx context.Context
	root, cancelRoot := clk.NewRoot(context.Background())
	ctx = root
	var k0 int64 // the tick at which the judged EVAL starts: instants count from there
	var cancels []context.CancelFunc
	defer func() {
		for _, c := range cancels {
			c()
		}
	}()
	arm := func() {
		k0 = clk.Ticks()
		fuel := int64(c07Fuel)
		rg.allocAt = 0
		if k > 0 && rg.measureAlloc {
			clk.At(k0+k, func() {
				var ms runtime.MemStats
				runtime.ReadMemStats(&ms)
				rg.allocAt = ms.TotalAlloc
			})
		}
		if k > 0 {
			fuel = k + 300
			switch mode {
			case "cancel":
				clk.At(k0+k, cancelRoot)
			case "cancel-under-deadline":
				clk.At(k0+k, cancelRoot)
				dctx, cancel := clk.WithDeadline(root, vclk.Epoch.Add(time.Duration(10000000)*vclk.Tick))
				cancels = append(cancels, cancel)
				ctx = dctx
			case "deadline":
				dctx, cancel := clk.WithDeadline(root, vclk.Epoch.Add(time.Duration(k0+k)*vclk.Tick))
				cancels = append(cancels, cancel)
				ctx = dctx
			case "deadline-reported-early":
				dctx, cancel := clk.WithDeadline(root, vclk.Epoch.Add(time.Duration(k0+k)*vclk.Tick))
				cancels = append(cancels, cancel)
				early := k0 + k - 20
				if early < 0 {
					early = 0
				}
				ctx = c07earlyCtx{dctx, vclk.Epoch.Add(time.Duration(early) * vclk.Tick)}
			}
		}
		clk.At(k0+fuel, cancelRoot) // safety: nothing runs forever
	}
	var res types.MalType
	var err error
	var pn *lx.Panic
	var obs c07obs
	if sh.future {
		s := vcore.New(nil, vcore.NewReduction(false))
		s.VisibleClass = [3]bool{false, false, false}
		s.IdleHook = clk.AdvanceToNextTimer
		s.BeginSetup()
		mainDone := false
		s.Run(func() {
			defer func() { mainDone = true }()
			if sh.pre != "" {
				if _, perr, pp := lx.Eval(context.Background(), lx.MustRead(sh.pre), scope); perr != nil || pp != nil {
					panic(fmt.Sprint("c07 pre-evaluation failed: ", perr, pp))
				}
			}
			arm()
			res, err, pn = lx.Eval(ctx, ast, scope)
			obs.ticks = clk.Ticks() - k0 // when EVAL returned (the scheduler may let time pass afterwards)
		})
		if s.Deadlock && !mainDone {
			// (when EVAL has returned, a future body left parked on its own never-ending context is not a hang of EVAL)
			obs.hang = true
		}
	} else {
		arm()
		res, err, pn = lx.Eval(ctx, ast, scope)
	}
	if !sh.future {
		obs.ticks = clk.Ticks() - k0
	}
	if rg.measureAlloc && rg.allocAt > 0 {
		var ms runtime.MemStats
		runtime.ReadMemStats(&ms)
		obs.allocAfter = ms.TotalAlloc - rg.allocAt
	}
	cancelRoot()
	obs.trace, obs.stamps = rg.trace, rg.stamp
	for j := range obs.stamps {
		obs.stamps[j] -= k0
	}
	switch {
	case pn != nil:
		obs.outcome = "panic:" + panicSig(pn)
	case err != nil && strings.Contains(err.Error(), "timeout"):
		obs.outcome = "timeout"
	case err != nil:
		obs.outcome = "error:" + shortErr(err)
	default:
		obs.outcome = "value:" + model.FromImpl(res).String()
	}
	return obs
}

func init() {
	vf.Register("C07", func() *vf.Check {
		rg := &c07rig{}
		var tier string
		var shapes []c07shape
		shapesOf := func() []c07shape {
			if shapes == nil {
				shapes = c07Shapes(tier)
			}
			return shapes
		}
		maxK := func() int64 {
			if tier == "thorough" {
				return 500
			}
			return 160
		}
		fam := &vf.Family{
			Name:    "shapes-x-instants",
			Bounds:  "program shapes: tail loop (with and without effects), non-tail recursion, macro self-expansion, sleeps, let/if/do/cond/or around a loop, map/apply/swap! calling a looping closure, terminating programs, future deref (under the thread scheduler), every (try P (catch e Q) (finally R)) and (try P (catch e Q)) over P,Q,R in {loop, sleep, constant, loop with effects}, nested try in body and in handler (quick: 4 inner forms x 2 outer atoms; thorough: all 80 inner forms x all 4 outer atoms); x every cancellation instant k = 1..160 (quick) / 1..500 (thorough) (k-th context poll on a virtual clock) x {cancel, deadline, cancel under a far deadline, deadline reported 20 polls before it is signalled}; for terminating programs also deadlines after their completion (no try: every instant up to twice the completion time; with try: 10x and 40x)",
			Setup:   func(t string) { tier = t; rg.setup() },
			Timeout: 30 * time.Second,
			N:       func(t string) int64 { tier = t; return int64(len(shapesOf())) * int64(len(c07Modes)) },
			Describe: func(i int64) string {
				sh := shapesOf()[i/int64(len(c07Modes))]
				return c07Modes[i%int64(len(c07Modes))] + " at every instant: " + sh.text
			},
			Run: func(i int64, r *vf.Rec) {
				sh := shapesOf()[i/int64(len(c07Modes))]
				mode := c07Modes[i%int64(len(c07Modes))]
				B := int64(8 + 4*sh.depth)
				ref := rg.run(sh, mode, 0)
				r.Exec(1)
				refTerminates := ref.outcome != "timeout" || ref.ticks < c07Fuel
				if ref.hang {
					// the reference run is itself cancelled (by the safety fuel at tick 1200): EVAL must return
					r.ViolationCase("evaluation blocks forever after cancellation ("+mode+", "+shapeClass(sh)+")", fmt.Sprintf("cancel at tick %d: %s", c07Fuel, sh.text), "no thread enabled and no timer pending after the context was cancelled")
					return
				}
				if strings.HasPrefix(ref.outcome, "panic") {
					r.Violation("evaluation panics without any cancellation: "+ref.outcome, sh.text)
					return
				}
				K := maxK()
				if refTerminates && ref.ticks+3 < K {
					K = ref.ticks + 3
				}
				worst := int64(0)
				for k := int64(1); k <= K; k++ {
					o := rg.run(sh, mode, k)
					r.Exec(1)
					r.NT()
					cas := fmt.Sprintf("%s at tick %d: %s", mode, k, sh.text)
					sigp := mode + ", " + shapeClass(sh)
					if strings.HasPrefix(o.outcome, "panic") {
						r.ViolationCase("cancellation makes EVAL panic: "+o.outcome, cas, fmt.Sprintf("trace %v", o.trace))
						return
					}
					if o.hang {
						r.ViolationCase("evaluation blocks forever after cancellation ("+sigp+")", cas, "no thread enabled and no timer pending")
						return
					}
					// the finally body runs exactly once on every path, also when the body timed out
					if mode == "deadline" && sh.finRuns && k >= 60 {
						n := 0
						for j := range o.stamps {
							if o.trace[j] == `:"fin"` {
								n++
							}
						}
						if n != 1 {
							r.ViolationCase("finally body did not run exactly once although body/handler finished before the deadline", cas, fmt.Sprintf("finally marker seen %d times; trace %v at ticks %v", n, o.trace, o.stamps))
							return
						}
					}
					if o.ticks < k {
						r.Outcome("returned before the instant")
						continue // EVAL had already returned when the instant came
					}
					over := o.ticks - k
					if over > worst {
						worst = over
					}
					if over > B {
						r.ViolationCase("EVAL keeps running after the cancellation instant ("+sigp+")", cas,
							fmt.Sprintf("returned %d polls after the instant (bound %d): outcome %s, trace %v at ticks %v", over, B, o.outcome, o.trace, o.stamps))
						return
					}
					for j, st := range o.stamps {
						if st > k+B {
							r.ViolationCase("side effect long after the cancellation instant ("+sigp+")", cas, fmt.Sprintf("effect %s at tick %d", o.trace[j], st))
							return
						}
					}
					// what was the evaluation doing at the instant?
					switch {
					case o.outcome == "timeout":
						r.Outcome("timeout error")
					case refTerminates && o.outcome == ref.outcome && ref.ticks-k <= B:
						r.Outcome("outcome already determined at the instant (instant after the last poll)")
					case sh.finally && !strings.HasPrefix(o.outcome, "panic"):
						// the try's outcome is determined before its finally body runs; a finally body
						// cut short by the cancellation leaves it unchanged
						r.Outcome("instant inside a finally body: determined outcome returned")
					default:
						r.ViolationCase("cancelled evaluation returns something else than a timeout error ("+sigp+")", cas,
							fmt.Sprintf("outcome %s (uncancelled: %s after %d polls), trace %v at ticks %v", o.outcome, ref.outcome, ref.ticks, o.trace, o.stamps))
						return
					}
					// under a deadline a caught timeout lets the handler run before the deadline
					if mode == "deadline" && sh.handler && k >= 60 { // 20% of 60 polls is ample for (t! :h)
						seen := false
						for j, st := range o.stamps {
							if o.trace[j] == `:"h"` && st <= k {
								seen = true
							}
						}
						if !seen {
							r.ViolationCase("handler of a timed-out try body did not get to run before the deadline", cas, fmt.Sprintf("trace %v at ticks %v", o.trace, o.stamps))
							return
						}
					}
				}
				// a deadline lying beyond the program's own completion changes nothing: for programs without
				// try at every later instant up to twice the completion time, for programs with try (whose
				// body only gets 80% of the remaining time at each level) at generous instants
				if refTerminates && ref.ticks < c07Fuel-10 && mode == "deadline" && !strings.HasPrefix(ref.outcome, "timeout") {
					var later []int64
					if sh.depth == 0 {
						for k := K + 1; k <= 2*ref.ticks+10; k++ {
							later = append(later, k)
						}
					}
					later = append(later, 10*ref.ticks+50, 40*ref.ticks+200)
					for _, k := range later {
						o := rg.run(sh, mode, k)
						r.Exec(1)
						if o.outcome != ref.outcome || strings.Join(o.trace, " ") != strings.Join(ref.trace, " ") {
							r.ViolationCase("a deadline beyond the program's completion changes its outcome ("+shapeClass(sh)+")", fmt.Sprintf("deadline at tick %d: %s", k, sh.text),
								fmt.Sprintf("without deadline: %s after %d polls, trace %v; with it: %s after %d polls, trace %v", ref.outcome, ref.ticks, ref.trace, o.outcome, o.ticks, o.trace))
							return
						}
					}
					r.Outcome("later deadlines leave the outcome unchanged")
				}
				r.Outcome(fmt.Sprintf("worst overshoot in polls: %d", worst))
				_ = worst
			},
		}
		// deep non-tail recursion cancelled late: returning the timeout error through thousands of pending
		// frames must stay cheap. Work after the instant is bounded in evaluator polls (as everywhere) and in
		// heap bytes allocated between the instant and EVAL's return (a deterministic stand-in for time spent)
		deepRig := &c07rig{}
		deepShapes := []c07shape{
			{name: "deep-non-tail-recursion", text: "(rec 0)"},
			{name: "deep-non-tail-recursion-in-try", text: "(try (rec 0) (catch e (t! :h) 5))", handler: true, depth: 1},
			{name: "deep-recursion-through-let-and-do", text: "(do (def rec2 (fn [n] (let [m (+ n 1)] (do (+ 1 (rec2 m)))))) (rec2 0))"},
		}
		deepInstants := []int64{3000, 12000, 40000}
		famDeep := &vf.Family{
			Name:    "deep-recursion-unwinding",
			Bounds:  fmt.Sprintf("%d non-tail recursions cancelled / timed out at polls %v (thousands of frames pending): EVAL returns within the poll bound and allocates at most 16 MiB of heap between the instant and its return", len(deepShapes), deepInstants),
			Setup:   func(t string) { tier = t; deepRig.setup(); deepRig.measureAlloc = true },
			Timeout: 600 * time.Second,
			N:       func(string) int64 { return int64(len(deepShapes) * len(deepInstants) * 2) },
			Describe: func(i int64) string {
				return fmt.Sprintf("%s at poll %d: %s", []string{"cancel", "deadline"}[i%2], deepInstants[(i/2)%int64(len(deepInstants))], deepShapes[i/2/int64(len(deepInstants))].text)
			},
			Run: func(i int64, r *vf.Rec) {
				mode := []string{"cancel", "deadline"}[i%2]
				k := deepInstants[(i/2)%int64(len(deepInstants))]
				sh := deepShapes[i/2/int64(len(deepInstants))]
				o := deepRig.run(sh, mode, k)
				r.Exec(1)
				r.NT()
				cas := fmt.Sprintf("%s at poll %d: %s", mode, k, sh.text)
				if strings.HasPrefix(o.outcome, "panic") || o.hang {
					r.ViolationCase("cancellation of a deep recursion makes EVAL panic or hang", cas, o.outcome)
					return
				}
				if o.ticks < k {
					r.Outcome("returned before the instant")
					return
				}
				if B := int64(8 + 4*sh.depth); o.ticks-k > B {
					r.ViolationCase("EVAL keeps running after the cancellation instant (deep recursion)", cas, fmt.Sprintf("returned %d polls after the instant (bound %d)", o.ticks-k, B))
					return
				}
				if o.allocAfter > 16<<20 {
					r.ViolationCase("returning a timeout through a deep recursion does an amount of work that grows with its depth", cas,
						fmt.Sprintf("%d bytes of heap allocated between the instant and EVAL's return (bound 16 MiB)", o.allocAfter))
					return
				}
				kib := uint64(64)
				for kib < o.allocAfter>>10 {
					kib *= 2
				}
				r.Outcome(fmt.Sprintf("returned promptly; heap allocated after the instant <= %d KiB", kib))
			},
		}
		return &vf.Check{
			ID: "C07", Level: "model_checking",
			Rule:        "every program shape is run on the real EVAL once uncancelled and then with cancellation / a deadline at every instant k (the k-th context poll; time, timers, sleeps and the 80/20 budget split of try run on a virtual clock through import-rewritten time/context); EVAL must return within B = 8 + 4 x (try depth) polls after the instant, never panic, return a timeout error (or the outcome already determined when the instant falls inside a finally body / after the last poll), produce no effect later than B polls after the instant, under a deadline let the handler of a timed-out body run, and a deadline beyond the program's completion leaves outcome and effects unchanged; every (shape, mode) case is non-trivial",
			Assumptions: []string{"promptness is counted in evaluator polls, not wall-clock time; a single long Go builtin is outside the model (as the property states)", "future shapes run under the thread scheduler with its default schedule"},
			Families:    []*vf.Family{fam, famDeep},
		}
	})
}

func shapeClass(sh c07shape) string {
	if i := strings.Index(sh.name, "/"); i > 0 {
		return sh.name[:i]
	}
	return sh.name
}
