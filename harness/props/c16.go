package props

import (
	"context"
	"fmt"
	"io"
	"os"
	"path/filepath"
	"strconv"
	"strings"
	"time"

	goreadline "github.com/chzyer/readline"
	"github.com/jig/lisp/env"
	"github.com/jig/lisp/lib/core/nscore"

	lisp "github.com/jig/lisp"
	"github.com/jig/lisp/repl"
	"github.com/jig/lisp/types"

	"verifharness/internal/enum"
	"verifharness/internal/lx"
	"verifharness/internal/model"
	"verifharness/internal/vf"
)

// ---- independent token-level classifier (the "Brackets" model) --------------

var c16Closer = map[string]string{"(": ")", "[": "]", "{": "}", "#{": "}"}

func isCloser(t string) bool  { return t == ")" || t == "]" || t == "}" }
func isComment(t string) bool { return strings.HasPrefix(t, ";") || strings.HasPrefix(t, "\n;") }
func isKeyTok(t string) bool {
	return strings.HasPrefix(t, ":") || strings.HasPrefix(t, `"`) || strings.HasPrefix(t, "¬")
}

// parseForm recognises one form starting at toks[i]; returns next index, ok.
func parseForm(toks []string, i int) (int, bool) {
	for i < len(toks) && isComment(toks[i]) {
		i++
	}
	if i >= len(toks) {
		return i, false
	}
	t := toks[i]
	switch {
	case t == "'":
		return parseForm(toks, i+1)
	case t == "^":
		// with-meta reader macro: ^META FORM
		j, ok := parseForm(toks, i+1)
		if !ok {
			return j, false
		}
		return parseForm(toks, j)
	case isCloser(t):
		return i, false
	case c16Closer[t] != "":
		cl := c16Closer[t]
		j := i + 1
		n := 0
		keysOK := true
		for {
			for j < len(toks) && isComment(toks[j]) {
				j++
			}
			if j >= len(toks) {
				return j, false
			}
			if isCloser(toks[j]) {
				if toks[j] != cl {
					return j, false
				}
				break
			}
			isKeyPos := (t == "{" && n%2 == 0) || t == "#{"
			if isKeyPos && !isKeyTok(toks[j]) {
				keysOK = false
			}
			nj, ok := parseForm(toks, j)
			if !ok {
				return nj, false
			}
			j = nj
			n++
		}
		if t == "{" && n%2 != 0 {
			return j, false
		}
		if !keysOK {
			return j, false
		}
		return j + 1, true
	default:
		return i + 1, true
	}
}

// wellFormedOne: toks is exactly one well-formed expression (comments allowed around).
func wellFormedOne(toks []string) bool {
	j, ok := parseForm(toks, 0)
	if !ok {
		return false
	}
	for j < len(toks) && isComment(toks[j]) {
		j++
	}
	return j == len(toks)
}

// openStack returns the stack of open brackets after toks (nil,false if a closer mismatches).
func openStack(toks []string) ([]string, bool) {
	var st []string
	for _, t := range toks {
		if c16Closer[t] != "" {
			st = append(st, t)
		} else if isCloser(t) {
			if len(st) == 0 || c16Closer[st[len(st)-1]] != t {
				return nil, false
			}
			st = st[:len(st)-1]
		}
	}
	return st, true
}

// ---- generator of well-formed expressions as token lists --------------------

func toksOf(v V) []string {
	out := make([]string, len(v.Elems))
	for i, e := range v.Elems {
		out[i] = e.S
	}
	return out
}

func tl(ts ...string) V {
	el := make([]V, len(ts))
	for i, t := range ts {
		el[i] = model.Str(t)
	}
	return model.List(el...)
}

func catToks(open string, kids []V, close string) V {
	var ts []string
	ts = append(ts, open)
	for _, k := range kids {
		ts = append(ts, toksOf(k)...)
	}
	ts = append(ts, close)
	return tl(ts...)
}

func c16Grammar(maxW int) *enum.Grammar {
	const F, K, EL = 0, 1, 2
	keys := []enum.Prod{leaf(":k", tl(":k")), leaf(`"s)"`, tl(`"s)"`)), leaf(`"("`, tl(`"("`)), leaf("¬]¬", tl("¬]¬"))}
	forms := []enum.Prod{
		leaf("a", tl("a")), leaf(":k", tl(":k")), leaf(`"s)"`, tl(`"s)"`)), leaf(`"("`, tl(`"("`)), leaf("¬]¬", tl("¬]¬")),
		{Name: "'", Weight: 1, Kids: []int{F}, Build: func(k []V) V { return tl(append([]string{"'"}, toksOf(k[0])...)...) }},
		{Name: "^meta", Weight: 1, Kids: []int{F}, Build: func(k []V) V { return tl(append([]string{"^", "{", ":m", "1", "}"}, toksOf(k[0])...)...) }},
	}
	for n := 0; n <= 3; n++ {
		kids := make([]int, n)
		for i := range kids {
			kids[i] = EL
		}
		forms = append(forms,
			enum.Prod{Name: fmt.Sprintf("list%d", n), Weight: 1, Kids: kids, Build: func(k []V) V { return catToks("(", k, ")") }},
			enum.Prod{Name: fmt.Sprintf("vec%d", n), Weight: 1, Kids: kids, Build: func(k []V) V { return catToks("[", k, "]") }},
		)
	}
	forms = append(forms,
		enum.Prod{Name: "map0", Weight: 1, Build: func(k []V) V { return tl("{", "}") }},
		enum.Prod{Name: "map1", Weight: 1, Kids: []int{K, F}, Build: func(k []V) V { return catToks("{", k, "}") }},
		enum.Prod{Name: "map2", Weight: 1, Kids: []int{K, F, K, F}, Build: func(k []V) V { return catToks("{", k, "}") }},
		enum.Prod{Name: "set0", Weight: 1, Build: func(k []V) V { return tl("#{", "}") }},
		enum.Prod{Name: "set1", Weight: 1, Kids: []int{K}, Build: func(k []V) V { return catToks("#{", k, "}") }},
		enum.Prod{Name: "set2", Weight: 1, Kids: []int{K, K}, Build: func(k []V) V { return catToks("#{", k, "}") }},
	)
	// an element of a list/vector is a form, or a comment followed by a form
	el := append([]enum.Prod{}, forms...)
	el = append(el, enum.Prod{Name: ";c)", Weight: 1, Kids: []int{F}, Build: func(k []V) V {
		return tl(append([]string{";c)\n"}, toksOf(k[0])...)...)
	}})
	// a comment that looks like the module header line, inside an expression
	el = append(el, enum.Prod{Name: ";; $MODULE", Weight: 1, Kids: []int{F}, Build: func(k []V) V {
		return tl(append([]string{"\n;; $MODULE m.lisp\n"}, toksOf(k[0])...)...)
	}})
	return enum.New([][]enum.Prod{forms, keys, el}, maxW)
}

const c16EOF = ", got EOF"

// classify reads text and classifies the reader's verdict.
func c16Read(text string, r *vf.Rec) (kind string, msg string, multi bool) {
	res, err, p := lx.Read(text)
	r.Exec(1)
	_ = res
	if p != nil {
		return "panic", p.String(), false
	}
	if err == nil {
		return "ok", "", false
	}
	m := err.Error()
	if ev, ok := lx.ErrValue(err); ok {
		if e2, ok := ev.(error); ok {
			m = e2.Error()
		}
	}
	multi, available := repl.VerifMultiLine(err)
	if !available {
		// the REPL no longer has a classifier of that name: its behaviour is then judged by the
		// repl-sessions family only; here the verdict is derived from the distinguished message
		multi = strings.HasPrefix(m, "expected '") && strings.HasSuffix(m, c16EOF)
	}
	if strings.HasPrefix(m, "expected '") && strings.HasSuffix(m, c16EOF) {
		return "incomplete", m, multi
	}
	return "error", m, multi
}

func init() {
	vf.Register("C16", func() *vf.Check {
		var tier string
		wOf := func() int {
			if tier == "thorough" {
				return 6
			}
			return 5
		}
		var g *enum.Grammar
		gOf := func() *enum.Grammar {
			if g == nil {
				g = c16Grammar(wOf())
			}
			return g
		}
		fam := &vf.Family{
			Name:     "expressions",
			Bounds:   "all well-formed expressions of weight <=5 (quick) / <=6 (thorough) over list/vector (0-3 elements), map (0-2 entries), set (0-2 members), quote prefix, ^metadata prefix, atoms incl. strings and raw strings containing bracket characters, comments containing ')' and a comment line that looks like a ';; $MODULE' header; each: every token-boundary cut, each closer appended, each closer inserted at every token boundary, each closer replaced, a second expression (complete, or still open in 7 ways) appended",
			Setup:    func(t string) { tier = t },
			N:        func(t string) int64 { tier = t; return gOf().Count(0, wOf()) },
			Describe: func(i int64) string { return strconv.Quote(strings.Join(toksOf(gOf().Unrank(0, i)), " ")) },
			Run: func(i int64, r *vf.Rec) {
				toks := toksOf(gOf().Unrank(0, i))
				join := func(ts []string) string { return strings.Join(ts, " ") }
				full := join(toks)
				if !wellFormedOne(toks) {
					r.Violation("harness: generator and classifier disagree", full)
					return
				}
				// 1. the complete expression is never reported as incomplete (and reads)
				if k, m, multi := c16Read(full, r); k == "incomplete" || multi {
					r.ViolationCase("complete expression reported as incomplete", strconv.Quote(full), m)
				} else if k != "ok" {
					r.ViolationCase("complete expression rejected: "+k, strconv.Quote(full), m)
				}
				// 2. every token-boundary cut
				for cut := 1; cut < len(toks); cut++ {
					pre := toks[:cut]
					st, ok := openStack(pre)
					if !ok || len(st) == 0 {
						continue
					}
					// completable by appending the closers of the open brackets?
					comp := append([]string{}, pre...)
					for j := len(st) - 1; j >= 0; j-- {
						comp = append(comp, c16Closer[st[j]])
					}
					text := join(pre)
					if !wellFormedOne(comp) {
						r.Note("cut not completable by closers (unconstrained)")
						continue
					}
					r.NT()
					want := "expected '" + c16Closer[st[len(st)-1]] + "'" + c16EOF
					k, m, multi := c16Read(text, r)
					if k != "incomplete" || m != want {
						r.ViolationCase("incomplete input not reported as 'expected <innermost closer>, got EOF'", strconv.Quote(text), fmt.Sprintf("want %q, got %s %q", want, k, m))
					} else if !multi {
						r.ViolationCase("REPL classifier does not recognise the incomplete-input error", strconv.Quote(text), m)
					}
				}
				// 3. surplus closer, replaced closer, second expression
				var bad []string
				for _, c := range []string{")", "]", "}"} {
					bad = append(bad, full+" "+c)
					if isCloser(toks[len(toks)-1]) && toks[len(toks)-1] != c {
						alt := append(append([]string{}, toks[:len(toks)-1]...), c)
						bad = append(bad, join(alt))
					}
					bad = append(bad, c+" "+full)
				}
				bad = append(bad, full+" a", full+" "+full)
				// a closing bracket of any kind inserted before any later token (one closer too many: never
				// well formed, never completable)
				for pos := 1; pos < len(toks); pos++ {
					for _, c := range []string{")", "]", "}"} {
						ins := append(append(append([]string{}, toks[:pos]...), c), toks[pos:]...)
						bad = append(bad, join(ins))
					}
				}
				// a complete expression followed by a second one that is still open: more than one
				// expression, and no appended closer can make it one (the REPL must not keep reading)
				for _, open := range []string{"(", "(c", "[1 (2", "{:a", "#{", "'(", "(c) (d"} {
					bad = append(bad, full+" "+open, full+"\n"+open)
				}
				for _, text := range bad {
					k, m, multi := c16Read(text, r)
					switch {
					case k == "ok":
						r.ViolationCase("malformed input silently accepted", strconv.Quote(text), "READ succeeded")
					case k == "panic":
						r.ViolationCase("reader panics on malformed input", strconv.Quote(text), m)
					case k == "incomplete" || multi:
						r.ViolationCase("malformed input reported as incomplete", strconv.Quote(text), m)
					}
				}
			},
		}
		// the REPL loop itself: every expression typed token by token (one per line), then a sentinel
		var gs *enum.Grammar
		gsOf := func() *enum.Grammar {
			if gs == nil {
				gs = c16Grammar(4)
			}
			return gs
		}
		sessW := func() int {
			if tier == "thorough" {
				return 4
			}
			return 3
		}
		sessions := &vf.Family{
			Name:    "repl-sessions",
			Bounds:  "every well-formed expression of weight <=3 (quick) / <=4 (thorough) typed into the real repl.Execute loop (through pipes) one token per line and two tokens per line, comments included, followed by a sentinel expression: the sentinel must be evaluated exactly once (the expression was recognised as complete at its last line, neither earlier nor never)",
			Setup:   func(t string) { tier = t },
			Timeout: 60 * time.Second,
			N:       func(t string) int64 { tier = t; return gsOf().Count(0, sessW()) * 2 },
			Describe: func(i int64) string {
				return strconv.Quote(strings.Join(c16Lines(toksOf(gsOf().Unrank(0, i/2)), int(i%2)+1), "\n"))
			},
			Run: func(i int64, r *vf.Rec) {
				toks := toksOf(gsOf().Unrank(0, i/2))
				lines := c16Lines(toks, int(i%2)+1)
				if len(lines) > 1 {
					r.NT()
				}
				out, err := c16Session(append(append([]string{}, lines...), `(str "SENT" "INEL")`))
				r.Exec(1)
				if err != "" {
					r.Violation("REPL session does not terminate", err)
					return
				}
				if n := strings.Count(out, "SENTINEL"); n != 1 {
					r.Violation("REPL does not recognise a complete multi-line expression", fmt.Sprintf("typed %q then a sentinel expression; the sentinel was evaluated %d times; REPL printed %q", lines, n, out))
				}
			},
		}
		// a read that happens while another read is in progress: a Go constructor form «rd "text"»
		// whose constructor reads its argument with lisp.READ (constructors run during reading)
		var nestEnv types.EnvType
		nestW := func() int {
			if tier == "thorough" {
				return 6
			}
			return 5
		}
		var gn *enum.Grammar
		gnOf := func() *enum.Grammar {
			if gn == nil {
				gn = c16Grammar(nestW())
			}
			return gn
		}
		nestFixed := []string{"(a b c d e f g)", "(p q r s t u)", "[1 [2 [3 [4 5]]] 6]", "{:a (1 2 3) :b [4 5 6]}"}
		nested := &vf.Family{
			Name:   "nested-reads",
			Bounds: "every well-formed expression E of weight <=5 (quick) / <=6 (thorough) without string tokens, and 4 longer fixed ones, read by a Go constructor while an outer text is being read: the outer texts [«rd \"E\"» y], (x «rd \"E\"» (y) z) and their cut before the last closer; the outer result must contain exactly READ(E) and its own remaining elements, and the cut must be reported as incomplete with the right closer",
			Setup: func(t string) {
				tier = t
				nestEnv = env.NewEnv()
				nestEnv.Set(types.Symbol{Val: "new-rd"}, types.Func{Fn: func(ctx context.Context, a []types.MalType) (types.MalType, error) {
					txt, _ := a[0].(string)
					return lisp.READ(txt, nil, nil)
				}})
			},
			N: func(t string) int64 { tier = t; return gnOf().Count(0, nestW()) + int64(len(nestFixed)) },
			Describe: func(i int64) string {
				if n := gnOf().Count(0, nestW()); i >= n {
					return "nested read of " + nestFixed[i-n]
				}
				return "nested read of " + strings.Join(toksOf(gnOf().Unrank(0, i)), " ")
			},
			Run: func(i int64, r *vf.Rec) {
				var inner string
				if n := gnOf().Count(0, nestW()); i >= n {
					inner = nestFixed[i-n]
				} else {
					inner = strings.Join(toksOf(gnOf().Unrank(0, i)), " ")
				}
				if strings.ContainsAny(inner, "\"\\¬\n") {
					r.Note("skipped: expression with string/comment tokens (would need escaping inside the constructor's argument)")
					return
				}
				alone, err, p := lx.Read(inner)
				if err != nil || p != nil {
					r.Note("skipped: inner expression does not read alone (expressions family)")
					return
				}
				iv := model.FromImpl(alone)
				readNs := func(text string) (types.MalType, error, *lx.Panic) {
					var res types.MalType
					var e error
					pn := lx.Guard(func() { res, e = lisp.READ(text, nil, nestEnv) })
					return res, e, pn
				}
				for _, o := range []struct{ text, want, closer string }{
					{`[«rd "` + inner + `"» y]`, model.Vec(iv, sym("y")).String(), "]"},
					{`(x «rd "` + inner + `"» (y) z)`, model.List(sym("x"), iv, model.List(sym("y")), sym("z")).String(), ")"},
				} {
					r.Exec(2)
					r.NT()
					res, e, pn := readNs(o.text)
					switch {
					case pn != nil:
						r.ViolationCase("reader panics during a nested read", strconv.Quote(o.text), pn.String())
						return
					case e != nil:
						r.ViolationCase("complete text with a nested read is rejected", strconv.Quote(o.text), e.Error())
						return
					case model.FromImpl(res).String() != o.want:
						r.ViolationCase("nested read changes what the outer text reads as", strconv.Quote(o.text), "want "+o.want+", got "+model.FromImpl(res).String())
						return
					}
					cut := o.text[:len(o.text)-1]
					_, e, pn = readNs(cut)
					wantMsg := "expected '" + o.closer + "'" + c16EOF
					if pn != nil || e == nil || !strings.HasSuffix(e.Error(), wantMsg) {
						r.ViolationCase("incomplete text with a nested read not reported as 'expected <closer>, got EOF'", strconv.Quote(cut), fmt.Sprintf("want %q, got err=%v panic=%v", wantMsg, e, pn))
						return
					}
				}
			},
		}
		// long flat expressions around powers of two (buffers and chunks have such sizes): complete, cut
		// before the last closer, and followed by surplus material
		longSizes := []int{63, 64, 65, 127, 128, 129, 255, 256, 257, 511, 512, 513, 1023, 1024, 1025, 2048, 4095, 4096, 4097}
		long := &vf.Family{
			Name: "long-expressions", InProc: true,
			Bounds: fmt.Sprintf("flat lists, vectors and nested lists of %v tokens: the complete text reads, the text cut before its last closer is reported incomplete with that closer, and the text followed by a surplus closer, a second expression or an open second expression is rejected with a different error", longSizes),
			Setup:  func(t string) { tier = t },
			N:      func(string) int64 { return int64(len(longSizes) * 3) },
			Describe: func(i int64) string {
				return fmt.Sprintf("%s of %d tokens", []string{"flat list", "flat vector", "nested lists"}[i%3], longSizes[i/3])
			},
			Run: func(i int64, r *vf.Rec) {
				n := longSizes[i/3]
				r.NT()
				var toks []string
				closer := ")"
				switch i % 3 {
				case 0:
					toks = append(toks, "(")
					for len(toks) < n-1 {
						toks = append(toks, "a")
					}
					toks = append(toks, ")")
				case 1:
					closer = "]"
					toks = append(toks, "[")
					for len(toks) < n-1 {
						toks = append(toks, "1")
					}
					toks = append(toks, "]")
				default:
					toks = append(toks, "(")
					for len(toks)+3 <= n-1 {
						toks = append(toks, "(", "b", ")")
					}
					for len(toks) < n-1 {
						toks = append(toks, "c")
					}
					toks = append(toks, ")")
				}
				full := strings.Join(toks, " ")
				if k, m, multi := c16Read(full, r); k != "ok" || multi {
					r.Violation("complete long expression not accepted", fmt.Sprintf("%d tokens: %s %s", n, k, m))
					return
				}
				cut := strings.Join(toks[:len(toks)-1], " ")
				want := "expected '" + closer + "'" + c16EOF
				if k, m, _ := c16Read(cut, r); k != "incomplete" || m != want {
					r.Violation("incomplete long expression not reported as 'expected <closer>, got EOF'", fmt.Sprintf("%d tokens: want %q, got %s %q", n-1, want, k, m))
					return
				}
				for _, tail := range []string{" )", " ]", " }", " (b)", " b", " (b", " [1 (2"} {
					k, m, multi := c16Read(full+tail, r)
					switch {
					case k == "ok":
						r.Violation("malformed input silently accepted", fmt.Sprintf("a complete expression of %d tokens followed by %q", n, tail))
						return
					case k == "panic":
						r.Violation("reader panics on malformed input", fmt.Sprintf("%d tokens + %q: %s", n, tail, m))
						return
					case k == "incomplete" || multi:
						r.Violation("malformed input reported as incomplete", fmt.Sprintf("a complete expression of %d tokens followed by %q: %s", n, tail, m))
						return
					}
				}
			},
		}
		// Go-constructor forms «type ...» are a bracket kind of this reader too: cut texts that contain one
		ctorCuts := []struct{ text, closer string }{
			{"«point 1 [2", "]"}, {"(def p «point 1 2", "»"}, {"[1 «point (+ 1 2", ")"}, {"«point", "»"}, {"«point {:a 1", "}"},
			{"«point «inner 1", "»"}, {"#{«point 1", "»"},
		}
		ctors := &vf.Family{
			Name: "constructor-forms-cut", InProc: true,
			Bounds:   fmt.Sprintf("%d cut texts containing a Go-constructor form «type ...» (read without an environment): each is reported incomplete with the innermost open bracket's closer", len(ctorCuts)),
			Setup:    func(t string) { tier = t },
			N:        func(string) int64 { return int64(len(ctorCuts)) },
			Describe: func(i int64) string { return strconv.Quote(ctorCuts[i].text) },
			Run: func(i int64, r *vf.Rec) {
				c := ctorCuts[i]
				r.NT()
				want := "expected '" + c.closer + "'" + c16EOF
				k, m, multi := c16Read(c.text, r)
				if k != "incomplete" || m != want {
					r.ViolationCase("incomplete input not reported as 'expected <innermost closer>, got EOF'", strconv.Quote(c.text), fmt.Sprintf("want %q, got %s %q", want, k, m))
				} else if !multi {
					r.ViolationCase("REPL classifier does not recognise the incomplete-input error", strconv.Quote(c.text), m)
				}
			},
		}
		return &vf.Check{
			ID: "C16", Level: "model_checking",
			Rule:        "every well-formed expression of the bounded grammar is cut at every token boundary and extended/mutated by every closing bracket; an independent bracket-stack recogniser decides which cuts are completable by closers and names the innermost closer; the reader's error and the REPL's own multiLine verdict (through a test-only export) must match; non-trivial = the expression had at least one constrained cut",
			Assumptions: []string{"cuts are at token boundaries; cuts ending in a prefix macro, an odd map or a non-string key are outside the property"},
			Families:    []*vf.Family{fam, nested, long, ctors, sessions},
		}
	})
}

var _ = lisp.PRINT

// c16Lines renders tokens as typed lines, per tokens per line (a comment token ends its line).
func c16Lines(toks []string, per int) []string {
	var lines []string
	var cur []string
	for _, t := range toks {
		if isComment(t) {
			cur = append(cur, strings.TrimSuffix(t, "\n"))
			lines = append(lines, strings.Join(cur, " "))
			cur = nil
			continue
		}
		cur = append(cur, t)
		if len(cur) >= per {
			lines = append(lines, strings.Join(cur, " "))
			cur = nil
		}
	}
	if len(cur) > 0 {
		lines = append(lines, strings.Join(cur, " "))
	}
	return lines
}

// c16Session types the lines into the real REPL loop (repl.Execute) through pipes and returns
// what it printed. readline reads plain lines when its input is not a terminal.
func c16Session(typed []string) (string, string) {
	home := filepath.Join(vf.VerifDir, ".work", "c16home", fmt.Sprint(os.Getpid()))
	os.MkdirAll(home, 0o755)
	os.Setenv("HOME", home)
	ns := env.NewEnv()
	if err := nscore.Load(ns); err != nil {
		return "", err.Error()
	}
	inR, inW, err := os.Pipe()
	if err != nil {
		return "", err.Error()
	}
	outR, outW, err := os.Pipe()
	if err != nil {
		return "", err.Error()
	}
	oldIn, oldOut, oldErr, oldStdout := goreadline.Stdin, goreadline.Stdout, goreadline.Stderr, os.Stdout
	goreadline.Stdin, goreadline.Stdout, goreadline.Stderr, os.Stdout = inR, outW, outW, outW
	defer func() {
		goreadline.Stdin, goreadline.Stdout, goreadline.Stderr, os.Stdout = oldIn, oldOut, oldErr, oldStdout
	}()
	go func() {
		io.WriteString(inW, strings.Join(typed, "\n")+"\n")
		inW.Close() // ^D
	}()
	printed := make(chan string, 1)
	go func() {
		b, _ := io.ReadAll(outR)
		printed <- string(b)
	}()
	finished := make(chan error, 1)
	go func() { finished <- repl.Execute(context.Background(), ns) }()
	select {
	case <-finished:
	case <-time.After(20 * time.Second):
		outW.Close()
		return "", "repl.Execute did not return within 20 s after end of input"
	}
	outW.Close()
	inR.Close()
	out := <-printed
	outR.Close()
	return out, ""
}
