package props

import (
	"context"
	"fmt"
	"os"
	"path/filepath"
	"strings"

	lisp "github.com/jig/lisp"
	"github.com/jig/lisp/env"
	"github.com/jig/lisp/types"

	"verifharness/internal/lx"
	"verifharness/internal/vf"
)

// block = lines of code; fault = index of the line on which the faulty expression starts (-1: none)
type c17block struct {
	lines []string
	fault int
}

func blk(fault int, lines ...string) c17block { return c17block{lines, fault} }

// wrap places inner inside a template; the template's lines use "@" where the inner block goes
// (the inner block always starts on its own line).
func c17wrap(before []string, inner c17block, after []string) c17block {
	out := c17block{fault: -1}
	out.lines = append(out.lines, before...)
	if inner.fault >= 0 {
		out.fault = len(out.lines) + inner.fault
	}
	out.lines = append(out.lines, inner.lines...)
	out.lines = append(out.lines, after...)
	return out
}

var c17Faults = []struct {
	name string
	b    c17block
}{
	{"undefined-symbol", blk(0, "zz-undefined")},
	{"undefined-symbol-as-arg", blk(1, "(list 1", "  zz-undefined", "  2)")},
	{"throw", blk(0, `(throw "zz-boom")`)},
	{"throw-multiline", blk(0, "(throw", `   "zz-boom")`)},
	{"failing-builtin", blk(0, "(nth [] 3)")},
	{"failing-builtin-multiline", blk(0, "(nth", "  []", "  3)")},
	{"failed-assert", blk(0, `(assert false "zz-assert")`)},
	// the thrown value is a datum that was itself written somewhere in the text: in another top-level
	// form (one of the fillers binds zz-datum; without it the fault is the undefined symbol), or on the
	// lines after the throw
	{"throw-datum-written-elsewhere", blk(0, "(throw zz-datum)")},
	{"throw-quoted-datum-multiline", blk(0, "(throw", "  '(zz-failed", "     :reason 1))")},
	{"call-non-function", blk(0, "(1 2)")},
	// the faulty call is an operand of a threading macro, which rebuilds it (the rebuilt form has no
	// source position of its own): last stage, middle stage, and a non-function
	{"failing-builtin-in-pipeline", blk(1, "(->> [1 2]", "  (nth 5))")},
	{"failing-middle-stage-of-pipeline", blk(1, "(->> [1 2]", "  (nth 5)", "  (list))")},
	{"call-non-function-in-pipeline", blk(1, "(-> 5", "  (1))")},
	{"failing-builtin-in-nested-pipelines", blk(2, "(-> [1 2]", "  (conj 3)", "  (->> (nth 7)))")},
}

var c17Wrappers = []struct {
	name string
	f    func(c17block) c17block
}{
	{"let", func(b c17block) c17block { return c17wrap([]string{"(let [q 1", "      w 2]"}, b, []string{")"}) }},
	{"if-then", func(b c17block) c17block { return c17wrap([]string{"(if true"}, b, []string{"  0)"}) }},
	{"if-else", func(b c17block) c17block { return c17wrap([]string{"(if false", "  0"}, b, []string{")"}) }},
	{"do", func(b c17block) c17block { return c17wrap([]string{"(do", "  1"}, b, []string{")"}) }},
	{"vector-literal", func(b c17block) c17block { return c17wrap([]string{"[1"}, b, []string{" 3]"}) }},
	{"map-value", func(b c17block) c17block { return c17wrap([]string{"{:k"}, b, []string{"}"}) }},
	{"cond", func(b c17block) c17block { return c17wrap([]string{"(cond", "  false 0", "  true"}, b, []string{")"}) }},
	{"thread-first", func(b c17block) c17block { return c17wrap([]string{"(-> 1", "  (list"}, b, []string{"  ))"}) }},
	{"and", func(b c17block) c17block { return c17wrap([]string{"(and true"}, b, []string{")"}) }},
	{"or", func(b c17block) c17block { return c17wrap([]string{"(or false"}, b, []string{")"}) }},
	{"fn-called-in-place", func(b c17block) c17block { return c17wrap([]string{"((fn [a]", "   a"}, b, []string{"  ) 5)"}) }},
	{"call-argument", func(b c17block) c17block { return c17wrap([]string{"(list 1 2"}, b, []string{")"}) }},
	{"try-finally", func(b c17block) c17block { return c17wrap([]string{"(try"}, b, []string{"  (finally 1))"}) }},
}

var c17Fillers = []c17block{
	blk(-1, "(def a1 1)"),
	blk(-1, "(def a2", "  (+ 1", "     2))"),
	blk(-1, ";; a comment block", ";; ( with brackets ]"),
	blk(-1, "", ""),
	blk(-1, "(def s1 ¬line one", "line two (", "line three¬)"),
	blk(-1, "(def f1 (fn [a]", "  (list a", "        a)))"),
	blk(-1, "(def zz-datum", "  '(check-failed", "     :reason \"r\"))"),
	// the names and tokens of the faults written earlier / later in the text where they are legal: a
	// parameter called like the undefined symbol, the same literals quoted (a fault is reported where it
	// happens, not where its spelling first occurred)
	blk(-1, "(def f2 (fn [zz-undefined]", "  (list zz-undefined", "    '(nth [] 3) \"zz-boom\" '(1 2))))"),
}

type c17delivery struct {
	name string
	// build returns the top-level blocks: the one containing the fault first, then forms
	// that must come later (the caller)
	build func(w c17block) (faultForm c17block, later []c17block)
}

var c17Deliveries = []c17delivery{
	{"direct", func(w c17block) (c17block, []c17block) { return w, nil }},
	{"function-defined-earlier", func(w c17block) (c17block, []c17block) {
		return c17wrap([]string{"(def ff (fn [a]"}, w, []string{"  ))"}), []c17block{blk(-1, "(ff", "  1)")}
	}},
	{"closure-returned-by-function", func(w c17block) (c17block, []c17block) {
		return c17wrap([]string{"(def mk (fn [a]", "  (fn [b]"}, w, []string{"  )))"}), []c17block{blk(-1, "(def cl (mk 1))"), blk(-1, "(cl 2)")}
	}},
}

// the function is defined in an earlier top-level form and called later from inside another
// construct: the error passes through that construct on its way out and must keep pointing at the fault
func init() {
	for _, c := range []struct {
		name   string
		caller [][]string
	}{
		{"called-later-inside-try-finally", [][]string{{"(try", "  (ff 1)", "  (finally 2))"}}},
		{"called-later-inside-bare-try", [][]string{{"(try", "  (ff 1))"}}},
		{"called-later-inside-let-do", [][]string{{"(let [q 1]", "  (do 1", "    (ff q)))"}}},
		{"called-later-by-another-function", [][]string{{"(def gg (fn [b]", "  (ff b)))"}, {"(gg", "  1)"}}},
	} {
		c := c
		c17Deliveries = append(c17Deliveries, c17delivery{c.name, func(w c17block) (c17block, []c17block) {
			var later []c17block
			for _, l := range c.caller {
				later = append(later, blk(-1, l...))
			}
			return c17wrap([]string{"(def ff (fn [a]"}, w, []string{"  ))"}), later
		}})
	}
}

// tier-2 deliveries: through builtins that call closures (reported separately)
var c17Deliveries2 = []c17delivery{
	{"through-map", func(w c17block) (c17block, []c17block) {
		return c17wrap([]string{"(def ff (fn [a]"}, w, []string{"  ))"}), []c17block{blk(-1, "(map ff", "  [1 2])")}
	}},
	{"through-apply", func(w c17block) (c17block, []c17block) {
		return c17wrap([]string{"(def ff (fn [a]"}, w, []string{"  ))"}), []c17block{blk(-1, "(apply ff", "  [1])")}
	}},
	{"through-swap!", func(w c17block) (c17block, []c17block) {
		return c17wrap([]string{"(def ff (fn [a]"}, w, []string{"  ))"}), []c17block{blk(-1, "(def at (atom 0))"), blk(-1, "(swap! at", "  ff)")}
	}},
}

type c17prog struct {
	text     string
	faultRow int // 1-based row of the fault's first line in the text
	formFrom int // rows of the top-level form containing the fault
	formTo   int
	descr    string
	blocks   [][2]int // 1-based row ranges of the top-level blocks (fillers, fault form, later forms), in order
}

func init() {
	vf.Register("C17", func() *vf.Check {
		var base types.EnvType
		var tier string
		setup := func(t string) { tier = t; base = lx.NewFullEnv() }
		// wrapper paths of length 0..2
		nW := len(c17Wrappers)
		wrapSp := seqSpace{nW, 2}
		// filler choices: before in 0..2 fillers (quick) by index, after 0..1
		type fillerChoice struct{ before, after []int }
		var fillerChoices []fillerChoice
		fillerChoicesOf := func() []fillerChoice {
			if fillerChoices != nil {
				return fillerChoices
			}
			nb := 1
			if tier == "thorough" {
				nb = 2
			}
			bsp := seqSpace{len(c17Fillers), nb}
			asp := seqSpace{len(c17Fillers), 1}
			for i := int64(0); i < bsp.size(); i++ {
				for j := int64(0); j < asp.size(); j++ {
					fillerChoices = append(fillerChoices, fillerChoice{bsp.unrank(i), asp.unrank(j)})
				}
			}
			return fillerChoices
		}
		build := func(fault, wrapIdx int, del c17delivery, fc fillerChoice, asDo bool) c17prog {
			w := c17Faults[fault].b
			var wnames []string
			path := wrapSp.unrank(int64(wrapIdx))
			for k := len(path) - 1; k >= 0; k-- {
				w = c17Wrappers[path[k]].f(w)
			}
			for _, p := range path {
				wnames = append(wnames, c17Wrappers[p].name)
			}
			ff, later := del.build(w)
			var lines []string
			if asDo {
				lines = append(lines, "(do")
			}
			pr := c17prog{}
			add := func(ls []string) {
				pr.blocks = append(pr.blocks, [2]int{len(lines) + 1, len(lines) + len(ls)})
				lines = append(lines, ls...)
			}
			for _, b := range fc.before {
				add(c17Fillers[b].lines)
			}
			pr.formFrom = len(lines) + 1
			pr.faultRow = len(lines) + 1 + ff.fault
			add(ff.lines)
			pr.formTo = len(lines)
			for _, b := range fc.after {
				add(c17Fillers[b].lines)
			}
			for _, l := range later {
				add(l.lines)
			}
			if asDo {
				lines = append(lines, ")")
			}
			pr.text = strings.Join(lines, "\n") + "\n"
			pr.descr = fmt.Sprintf("fault %s wrapped by [%s], delivery %s", c17Faults[fault].name, strings.Join(wnames, ">"), del.name)
			return pr
		}
		type cas struct {
			fault, wrap, del, fc int
		}
		mkFamily := func(name string, dels []c17delivery, bounds string) *vf.Family {
			n := func() int64 {
				return int64(len(c17Faults)) * wrapSp.size() * int64(len(dels)) * int64(len(fillerChoicesOf()))
			}
			caseOf := func(i int64) cas {
				nf := int64(len(fillerChoicesOf()))
				c := cas{}
				c.fc = int(i % nf)
				i /= nf
				c.del = int(i % int64(len(dels)))
				i /= int64(len(dels))
				c.wrap = int(i % wrapSp.size())
				i /= wrapSp.size()
				c.fault = int(i)
				return c
			}
			return &vf.Family{
				Name: name, Bounds: bounds, Setup: setup,
				N: func(t string) int64 { tier = t; return n() },
				Describe: func(i int64) string {
					c := caseOf(i)
					p := build(c.fault, c.wrap, dels[c.del], fillerChoicesOf()[c.fc], true)
					return p.descr + "\n" + p.text
				},
				Run: func(i int64, r *vf.Rec) {
					c := caseOf(i)
					routes := []string{"one-do-form", "form-by-form-REPL", "load-file", "leading-blank-lines", "forms-read-one-by-one", "same-text-under-a-second-module-name", "module-named-by-header-line"}
					for _, route := range routes {
						if route == "load-file" && c.wrap > nW {
							continue // load-file route: wrapper paths of length <= 1
						}
						p := build(c.fault, c.wrap, dels[c.del], fillerChoicesOf()[c.fc], route == "one-do-form" || route == "leading-blank-lines" || route == "same-text-under-a-second-module-name" || route == "module-named-by-header-line")
						if route == "leading-blank-lines" {
							// the module text itself starts with blank lines and a comment
							p.text = "\n\n; header\n" + p.text
							p.faultRow, p.formFrom, p.formTo = p.faultRow+3, p.formFrom+3, p.formTo+3
						}
						scope := env.NewSubordinateEnv(base)
						var err error
						var pn *lx.Panic
						module := "mod"
						switch route {
						case "forms-read-one-by-one":
							// every top-level block is read and evaluated on its own (as a REPL session or a host
							// feeding forms does), padded with line breaks so that its rows are those of the module text
							all := strings.Split(p.text, "\n")
							for _, b := range p.blocks {
								blk := all[b[0]-1 : b[1]]
								code := false
								for _, l := range blk {
									if t := strings.TrimSpace(l); t != "" && !strings.HasPrefix(t, ";") {
										code = true
									}
								}
								if !code {
									continue
								}
								text := strings.Repeat("\n", b[0]-1) + strings.Join(blk, "\n") + "\n"
								pn = lx.Guard(func() { _, err = lisp.REPL(context.Background(), scope, text, types.NewCursorFile("mod")) })
								if err != nil || pn != nil {
									break
								}
							}
						case "module-named-by-header-line":
							// no cursor: the module is named by a ';; $MODULE name' first line (rows count from the
							// line after it), and the module text begins with two blank lines
							module = "named/by header.lisp"
							var ast types.MalType
							ast, err = lisp.READ(";; $MODULE "+module+"\n\n\n"+p.text, nil, nil)
							if err != nil {
								r.ViolationCase("harness: generated program does not read", p.text, err.Error())
								return
							}
							p.faultRow, p.formFrom, p.formTo = p.faultRow+2, p.formFrom+2, p.formTo+2
							_, err, pn = lx.Eval(context.Background(), ast, scope)
						case "same-text-under-a-second-module-name":
							// the identical text was read before under the name "mod" (route one-do-form): read again
							// under another name, every position must name the new module
							module = "second/module.lisp"
							var ast types.MalType
							ast, err = lisp.READ(p.text, types.NewCursorFile(module), nil)
							if err != nil {
								r.ViolationCase("harness: generated program does not read", p.text, err.Error())
								return
							}
							_, err, pn = lx.Eval(context.Background(), ast, scope)
						case "one-do-form", "leading-blank-lines":
							var ast types.MalType
							ast, err = lisp.READ(p.text, types.NewCursorFile("mod"), nil)
							if err != nil {
								r.ViolationCase("harness: generated program does not read", p.text, err.Error())
								return
							}
							_, err, pn = lx.Eval(context.Background(), ast, scope)
						case "form-by-form-REPL":
							// the whole text is one module: read it once as a do form but without the
							// harness-added wrapper lines, i.e. wrap on the same line
							var ast types.MalType
							ast, err = lisp.READ("(do "+p.text+")", types.NewCursorFile("mod"), nil)
							if err != nil {
								r.ViolationCase("harness: generated program does not read", p.text, err.Error())
								return
							}
							_, err, pn = lx.Eval(context.Background(), ast, scope)
						case "load-file":
							// (a path with a blank: the module name is taken from a text line)
							dir := filepath.Join(vf.VerifDir, ".work", "c17 files", fmt.Sprint(os.Getpid()))
							os.MkdirAll(dir, 0o755)
							module = filepath.Join(dir, "my prog.lisp")
							os.WriteFile(module, []byte(p.text), 0o644)
							_, err, pn = lx.Eval(context.Background(), types.List{Val: []types.MalType{types.Symbol{Val: "load-file"}, module}}, scope)
						}
						r.Exec(1)
						sig := func(kind string) string {
							return fmt.Sprintf("%s: %s, delivery %s, route %s", kind, c17Faults[c.fault].name, dels[c.del].name, route)
						}
						if pn != nil {
							r.ViolationCase(sig("evaluation panics"), p.descr+"\n"+p.text, pn.String())
							continue
						}
						if err == nil {
							r.ViolationCase("harness: planted fault did not fail", p.descr+"\n"+p.text, "no error")
							return
						}
						pe, ok := err.(interface{ Position() *types.Position })
						if !ok || pe.Position() == nil {
							r.Outcome("error without position (not judged): " + route)
							continue
						}
						pos := pe.Position()
						r.NT()
						r.Outcome("positioned error: " + route)
						if pos.Module == nil || *pos.Module != module {
							m := "<nil>"
							if pos.Module != nil {
								m = *pos.Module
							}
							r.ViolationCase(sig("error position names the wrong module"), p.descr+"\n"+p.text, fmt.Sprintf("module %q, expected %q; position %s", m, module, pos))
							continue
						}
						if pos.BeginRow < p.formFrom || pos.Row > p.formTo || pos.BeginRow > pos.Row {
							r.ViolationCase(sig("error position outside the top-level form containing the fault"), p.descr+"\n"+p.text,
								fmt.Sprintf("position rows %d..%d, containing form rows %d..%d, fault starts on row %d (%s)", pos.BeginRow, pos.Row, p.formFrom, p.formTo, p.faultRow, err))
							continue
						}
						if p.faultRow < pos.BeginRow || p.faultRow > pos.Row {
							r.ViolationCase(sig("error position does not cover the line where the fault starts"), p.descr+"\n"+p.text,
								fmt.Sprintf("position rows %d..%d, fault starts on row %d (%s)", pos.BeginRow, pos.Row, p.faultRow, err))
						}
					}
				},
			}
		}
		common := fmt.Sprintf("%d faults (undefined symbol, throw, failing builtin, failed assert, call of a non-function; single- and multi-line) x every wrapper path of length 0..2 over %d wrappers (let, if-then, if-else, do, vector literal, map value, cond, ->, and, or, fn called in place, call argument, try/finally) x fillers before (0..1 quick / 0..2 thorough) and after (0..1) from %d multi-line forms/comments/blank lines/raw strings; routes: one do form, same-line do, load-file from a file (wrapper paths of length <=1), after leading blank lines, every top-level form read and evaluated on its own, the same text read again under a second module name, the module named by a ';; $MODULE' header line followed by blank lines (no cursor)", len(c17Faults), nW, len(c17Fillers))
		return &vf.Check{
			ID: "C17", Level: "model_checking",
			Rule:        "every program of the bounded layout space (the generator knows the row range of every top-level form and the row where the planted fault starts) is read under a module name and evaluated; when the error carries a position it must name the module, lie within the rows of the top-level form that textually contains the fault and cover the fault's first row; non-trivial = the error carried a position",
			Assumptions: []string{"errors without a position are not judged (several macro-built forms carry none)", "delivery through map/apply/swap! is a separate family so that its verdict does not mask the direct deliveries"},
			Families: []*vf.Family{
				mkFamily("direct-and-called-later", c17Deliveries, common+"; deliveries: direct, function defined earlier and called later, closure returned by a function"),
				mkFamily("through-builtins", c17Deliveries2, common+"; deliveries: function called through map, apply, swap!"),
			},
		}
	})
}
