package props

import (
	"context"
	"fmt"
	lisp "github.com/jig/lisp"
	"sort"
	"strings"
	"time"

	"github.com/jig/lisp/env"
	"github.com/jig/lisp/lib/call"
	"github.com/jig/lisp/lib/concurrent"
	"github.com/jig/lisp/types"
	"github.com/jig/lisp/zverif/vcore"

	"verifharness/internal/explore"
	"verifharness/internal/lx"
	"verifharness/internal/vf"
)

// ---- atom operation alphabet and its sequential specification -----------------

type atomSt struct {
	a, b, k int    // k: the element of the list held by atom k
	w       string // printed form of the sequence held by atom w
}

type atomOp struct {
	name string
	text func(c int) string // c = thread/op-unique constant
	// spec: state -> possible (state', result) pairs; isErr results carry ok=false.
	// extra = how many times an inner effect on the *other* atom may have happened (>=1).
	spec  func(s atomSt, c int, extra int) (atomSt, string)
	inner bool // has an effect on the other atom that a retrying implementation may repeat
	// mayFail: the operation runs under the scenario's cancellable caller context and may instead
	// return an error (timeout) without any effect
	mayFail bool
	harness func(st *c09state) int // harness-level operation (not lisp)
}

func iv(i int) string { return fmt.Sprint(i) }

const c09CoreOps = 11

var atomOps = []atomOp{
	{"deref", func(c int) string { return "@a" }, func(s atomSt, c, k int) (atomSt, string) { return s, iv(s.a) }, false, false, nil},
	{"reset!", func(c int) string { return fmt.Sprintf("(reset! a %d)", c) }, func(s atomSt, c, k int) (atomSt, string) { s.a = c; return s, iv(c) }, false, false, nil},
	{"swap!-inc", func(c int) string { return "(swap! a inc)" }, func(s atomSt, c, k int) (atomSt, string) { s.a++; return s, iv(s.a) }, false, false, nil},
	{"swap!-plus", func(c int) string { return "(swap! a + 2)" }, func(s atomSt, c, k int) (atomSt, string) { s.a += 2; return s, iv(s.a) }, false, false, nil},
	{"swap!-failing-fn", func(c int) string { return "(swap! a failing)" }, func(s atomSt, c, k int) (atomSt, string) { return s, "error" }, false, false, nil},
	{"swap!-reads-itself", func(c int) string { return "(swap! a (fn [x] (+ x @a)))" }, func(s atomSt, c, k int) (atomSt, string) { s.a += s.a; return s, iv(s.a) }, false, false, nil},
	{"swap!-reads-b", func(c int) string { return "(swap! a (fn [x] (+ x @b)))" }, func(s atomSt, c, k int) (atomSt, string) { s.a += s.b; return s, iv(s.a) }, false, false, nil},
	{"swap!-a-updates-b", func(c int) string { return fmt.Sprintf("(swap! a (fn [x] (t! %d) (swap! b inc) x))", c) }, func(s atomSt, c, k int) (atomSt, string) { s.b += k; return s, iv(s.a) }, true, false, nil},
	{"pr-str", func(c int) string { return "(pr-str a)" }, func(s atomSt, c, k int) (atomSt, string) { return s, fmt.Sprintf("%q", "«atom "+iv(s.a)+"»") }, false, false, nil},
	{"swap!-b-updates-a", func(c int) string { return fmt.Sprintf("(swap! b (fn [x] (t! %d) (swap! a inc) x))", c) }, func(s atomSt, c, k int) (atomSt, string) { s.a += k; return s, iv(s.b) }, true, false, nil},
	{"deref-b", func(c int) string { return "@b" }, func(s atomSt, c, k int) (atomSt, string) { return s, iv(s.b) }, false, false, nil},
	// an update function that keeps its rest-argument list (stores it in atom k): what it kept
	// must stay what it was, whatever swap! does with its argument vector afterwards
	{"swap!-keeps-rest-args", func(c int) string { return fmt.Sprintf("(swap! a (fn [x & more] (t! %d) (reset! k more) x) %d)", c, c) }, func(s atomSt, c, k int) (atomSt, string) { return s, iv(s.a) }, true, false, nil},
	// the update function is a Go builtin that calls a lisp function back (like update, apply, map do),
	// and that callback reads the atom being swapped
	{"swap!-builtin-calling-back", func(c int) string { return "(swap! a callf (fn [x] (+ x @a)))" }, func(s atomSt, c, k int) (atomSt, string) { s.a += s.a; return s, iv(s.a) }, false, false, nil},
	// a swap! evaluated under a caller context that another thread ends: it either takes effect or
	// returns a timeout error without effect, and leaves the atom usable either way
	{name: "swap!-inc-under-caller-context", text: func(c int) string { return "(swap! a inc)" }, spec: func(s atomSt, c, k int) (atomSt, string) { s.a++; return s, iv(s.a) }, mayFail: true},
	{name: "end-caller-context", text: func(c int) string { return "<the caller context ends>" }, spec: func(s atomSt, c, k int) (atomSt, string) { return s, "0" },
		harness: func(st *c09state) int { st.cancel(); return 0 }},
	// an atom holding a sequence: a list and a vector with the same elements are = but behave differently
	// (conj adds in front of a list, at the end of a vector), so an update must never be mistaken for a no-op
	{name: "reset!-w-to-list", text: func(c int) string { return "(pr-str (reset! w (list 1 2)))" }, spec: func(s atomSt, c, k int) (atomSt, string) { s.w = "(1 2)"; return s, fmt.Sprintf("%q", s.w) }},
	{name: "reset!-w-to-vector", text: func(c int) string { return "(pr-str (reset! w [1 2]))" }, spec: func(s atomSt, c, k int) (atomSt, string) { s.w = "[1 2]"; return s, fmt.Sprintf("%q", s.w) }},
	{name: "swap!-w-conj", text: func(c int) string { return "(pr-str (swap! w conj 3))" }, spec: func(s atomSt, c, k int) (atomSt, string) { s.w = c09conj3(s.w); return s, fmt.Sprintf("%q", s.w) }},
	{name: "deref-w", text: func(c int) string { return "(pr-str @w)" }, spec: func(s atomSt, c, k int) (atomSt, string) { return s, fmt.Sprintf("%q", s.w) }},
	{"first-of-k", func(c int) string { return "(first @k)" }, func(s atomSt, c, k int) (atomSt, string) { return s, iv(s.k) }, false, false, nil},
}

type histOp struct {
	thread, op, c int
	inv, ret      int
	result        string
	done          bool
}

type c09state struct {
	inner   map[int]int // op constant -> how many times its update function ran
	scope   types.EnvType
	a, b, k *concurrent.Atom
	w       *concurrent.Atom
	cctx    context.Context // caller context of the operations that may fail
	cancel  context.CancelFunc
	clock   int
	hist    []*histOp
	plan    [][]int
}

// linearizable: is there a total order of the completed operations, consistent with
// real time, whose sequential execution from (1,1) produces the observed results and
// final values? An operation whose update function updates the *other* atom contributes
// k >= 1 separate increment events on that atom (a retrying swap! may repeat the inner
// effect, as in Clojure), each somewhere within the operation's own interval.
type linEvent struct {
	inv, ret int
	op       int // index into atomOps, or -1 / -2 for an inner increment of b / a
	c        int
	result   string
}

var linCache = map[string]bool{}

func linearizable(hist []*histOp, finalA, finalB, finalK int, finalW string, innerRuns map[int]int) (bool, string) {
	var kb strings.Builder
	for _, h := range hist {
		fmt.Fprintf(&kb, "%d:%d:%d:%d:%s|", h.op, h.c, h.inv, h.ret, h.result)
	}
	for _, h := range hist {
		fmt.Fprintf(&kb, "k%d,", innerRuns[h.c])
	}
	fmt.Fprintf(&kb, "%d,%d,%d,%s", finalA, finalB, finalK, finalW)
	key := kb.String()
	if v, ok := linCache[key]; ok && v {
		return true, ""
	}
	ok, why := linearizableUncached(hist, finalA, finalB, finalK, finalW, innerRuns)
	if len(linCache) > 200000 {
		linCache = map[string]bool{}
	}
	linCache[key] = ok
	return ok, why
}

func linearizableUncached(hist []*histOp, finalA, finalB, finalK int, finalW string, innerRuns map[int]int) (bool, string) {
	var ev []linEvent
	for _, h := range hist {
		ev = append(ev, linEvent{h.inv, h.ret, h.op, h.c, h.result})
		if atomOps[h.op].inner {
			target := -1 // increments b
			switch atomOps[h.op].name {
			case "swap!-b-updates-a":
				target = -2
			case "swap!-keeps-rest-args":
				target = -3 // k := (c)
			}
			// the update function ran innerRuns times (observed through the trace builtin):
			// that many separate increments of the other atom, each within the operation's interval
			for k := 0; k < innerRuns[h.c]; k++ {
				ev = append(ev, linEvent{h.inv, h.ret, target, h.c, ""})
			}
		}
	}
	if len(ev) <= 24 && linSearch(ev, finalA, finalB, finalK, finalW) {
		return true, ""
	}
	var p []string
	for _, h := range hist {
		p = append(p, fmt.Sprintf("T%d %s [%d,%d] -> %s (update function ran %d times)", h.thread, atomOps[h.op].text(h.c), h.inv, h.ret, h.result, innerRuns[h.c]))
	}
	return false, strings.Join(p, "; ") + fmt.Sprintf("; final a=%d b=%d k=(%d) w=%s", finalA, finalB, finalK, finalW)
}

func linSearch(ev []linEvent, finalA, finalB, finalK int, finalW string) bool {
	n := len(ev)
	type key struct {
		mask uint32
		st   atomSt
	}
	seen := map[key]bool{}
	var rec func(mask uint32, st atomSt) bool
	rec = func(mask uint32, st atomSt) bool {
		if mask == 1<<uint(n)-1 {
			return st.a == finalA && st.b == finalB && st.k == finalK && st.w == finalW
		}
		k := key{mask, st}
		if seen[k] {
			return false
		}
		seen[k] = true
		for i := 0; i < n; i++ {
			if mask&(1<<uint(i)) != 0 {
				continue
			}
			ok := true
			for j := 0; j < n; j++ {
				if j != i && mask&(1<<uint(j)) == 0 && ev[j].ret < ev[i].inv {
					ok = false
					break
				}
			}
			if !ok {
				continue
			}
			ns := st
			switch ev[i].op {
			case -1:
				ns.b++
			case -2:
				ns.a++
			case -3:
				ns.k = ev[i].c
			default:
				var r string
				ns, r = atomOps[ev[i].op].spec(st, ev[i].c, 0)
				if atomOps[ev[i].op].mayFail && ev[i].result == "error" {
					ns = st // failed under its ended context: no effect
				} else if r != ev[i].result {
					continue
				}
			}
			if rec(mask|1<<uint(i), ns) {
				return true
			}
		}
		return false
	}
	return rec(0, atomSt{a: 1, b: 1, k: 0, w: "[1 2]"})
}

func init() {
	vf.Register("C09", func() *vf.Check {
		var base types.EnvType
		var tier string
		tracer := &lx.Tracer{}
		setup := func(t string) {
			tier = t
			base = lx.NewFullEnv()
			tracer.Install(base)
			c09InstallCallf(base)
			if _, err, p := lx.Eval(nil, lx.MustRead(`(def failing (fn [x] (throw "no")))`), base); err != nil || p != nil {
				panic("c09 prelude")
			}
		}
		// scenarios: plan = per thread list of op indexes
		var plans [][][]int
		plansOf := func() [][][]int {
			if plans != nil {
				return plans
			}
			n := len(atomOps)
			seen := map[string]bool{}
			add := func(p [][]int) {
				// threads are interchangeable: canonical by sorted thread strings
				ss := make([]string, len(p))
				for i, t := range p {
					ss[i] = fmt.Sprint(t)
				}
				sort.Strings(ss)
				k := strings.Join(ss, "|")
				if !seen[k] {
					seen[k] = true
					plans = append(plans, p)
				}
			}
			// (first, so that these long scenarios start at once)
			// contended: one operation against a thread issuing three writes in a row (a retrying
			// swap! can lose up to three races in a row)
			for i := 0; i < n; i++ {
				for _, w := range []int{1, 2} { // reset!, swap!-inc

					add([][]int{{i}, {w, w, w}})
				}
			}
			// an operation under the caller context against a thread that writes, ends that context and then
			// uses the atom again (an operation that fails must leave the atom usable)
			idx := func(name string) int {
				for k, o := range atomOps {
					if o.name == name {
						return k
					}
				}
				panic("c09: no op " + name)
			}
			for _, w := range []int{1, 2} {
				for _, rd := range []string{"deref", "reset!", "swap!-inc", "pr-str"} {
					add([][]int{{idx("swap!-inc-under-caller-context")}, {w, idx("end-caller-context"), idx(rd)}})
				}
			}
			for i := 0; i < n; i++ {
				for j := i; j < n; j++ {
					add([][]int{{i}, {j}})
				}
			}
			for i := 0; i < n; i++ {
				for j := i; j < n; j++ {
					for k := j; k < n; k++ {
						add([][]int{{i}, {j}, {k}})
					}
				}
			}
			// two operations on one thread against one (quick) / two (thorough) on the other
			for i := 0; i < n; i++ {
				for j := 0; j < n; j++ {
					for k := 0; k < n; k++ {
						add([][]int{{i, j}, {k}})
						if tier == "thorough" && i < c09CoreOps && j < c09CoreOps && k < c09CoreOps {
							// (2 || 2) over the first 11 operations (the later ones take part in all smaller plans)
							for l := 0; l < c09CoreOps; l++ {
								add([][]int{{i, j}, {k, l}})
							}
						}
					}
				}
			}
			return plans
		}
		planStr := func(p [][]int) string {
			var ts []string
			for ti, t := range p {
				var os []string
				for k, o := range t {
					t := atomOps[o].text(10*(ti+1) + k)
					if atomOps[o].mayFail {
						t += " [under the caller context]"
					}
					os = append(os, t)
				}
				ts = append(ts, fmt.Sprintf("T%d: %s", ti, strings.Join(os, " ")))
			}
			return strings.Join(ts, " || ")
		}
		mkScenario := func(plan [][]int) *explore.Scenario {
			return &explore.Scenario{
				Name:        planStr(plan),
				VisibleAtom: true, VisibleHook: true, VisibleEnv: false, Reduction: false,
				Setup: func() any {
					st := &c09state{plan: plan}
					tracer.Reset()
					st.scope = env.NewSubordinateEnv(base)
					st.cctx, st.cancel = context.WithCancel(context.Background())
					st.a, st.b = &concurrent.Atom{Val: 1}, &concurrent.Atom{Val: 1}
					st.scope.Set(types.Symbol{Val: "a"}, st.a)
					st.scope.Set(types.Symbol{Val: "b"}, st.b)
					st.k = &concurrent.Atom{Val: types.List{Val: []types.MalType{0}}}
					st.scope.Set(types.Symbol{Val: "k"}, st.k)
					st.k.Deref(context.Background())
					st.w = &concurrent.Atom{Val: types.Vector{Val: []types.MalType{1, 2}}}
					st.scope.Set(types.Symbol{Val: "w"}, st.w)
					st.w.Deref(context.Background())
					// touch the atoms in setup mode so that their locks get schedule-independent ids
					st.a.Deref(context.Background())
					st.b.Deref(context.Background())
					return st
				},
				Threads: func(state any) []func() {
					st := state.(*c09state)
					var bodies []func()
					for ti, ops := range st.plan {
						ti, ops := ti, ops
						bodies = append(bodies, func() {
							for k, o := range ops {
								c := 10*(ti+1) + k
								h := &histOp{thread: ti, op: o, c: c}
								st.hist = append(st.hist, h)
								if s := vcore.Active(); s != nil {
									if k == 0 {
										s.Point("op-start")
									} else {
										s.Point("op-next") // boundary between two operations of one thread: a free yield
									}
								}
								st.clock++
								h.inv = st.clock
								var res types.MalType
								var err error
								var p *lx.Panic
								switch {
								case atomOps[o].harness != nil:
									res = atomOps[o].harness(st)
								case atomOps[o].mayFail:
									res, err, p = lx.Eval(st.cctx, lx.MustRead(atomOps[o].text(c)), st.scope)
								default:
									res, err, p = lx.Eval(context.Background(), lx.MustRead(atomOps[o].text(c)), st.scope)
								}
								st.clock++
								h.ret = st.clock
								h.done = true
								switch {
								case p != nil:
									h.result = "PANIC " + p.String()
								case err != nil:
									h.result = "error"
								default:
									h.result = fmt.Sprint(res)
									if s, ok := res.(string); ok {
										h.result = fmt.Sprintf("%q", s)
									}
								}
							}
						})
					}
					return bodies
				},
				DeadlockSig: func(state any, s *vcore.Sched) string {
					st := state.(*c09state)
					set := map[string]bool{}
					// name the operations blocked on a read lock (they hold the write lock of the
					// same atom); if there is none, all blocked operations (lock-order cycle)
					for pass := 0; pass < 2 && len(set) == 0; pass++ {
						for _, h := range st.hist {
							if !h.done && (pass == 1 || strings.HasPrefix(s.BlockedT[h.thread], "RLock")) {
								set[atomOps[h.op].name] = true
							}
						}
					}
					var names []string
					for k := range set {
						names = append(names, k)
					}
					sort.Strings(names)
					return "deadlock: blocked in " + strings.Join(names, " + ")
				},
				Check: func(state any, s *vcore.Sched) (string, string, string) {
					st := state.(*c09state)
					fa, _ := st.a.Val.(int)
					fb, _ := st.b.Val.(int)
					fk := -1 // anything but a one-element list of an int
					if l, ok := st.k.Val.(types.List); ok && len(l.Val) == 1 {
						if i, ok := l.Val[0].(int); ok {
							fk = i
						}
					}
					var obs []string
					for _, h := range st.hist {
						obs = append(obs, fmt.Sprintf("T%d:%s", h.thread, h.result))
						if strings.HasPrefix(h.result, "PANIC") {
							return "panic in atom operation " + atomOps[h.op].name, h.result, "panic"
						}
					}
					sort.Strings(obs)
					fw := lisp.PRINT(st.w.Val)
					o := strings.Join(obs, ",") + fmt.Sprintf(" a=%d b=%d k=%d w=%s", fa, fb, fk, fw)
					runs := map[int]int{}
					for _, t := range tracer.Log {
						if c, ok := t.(int); ok {
							runs[c]++
						}
					}
					if ok, why := linearizable(st.hist, fa, fb, fk, fw, runs); !ok {
						set := map[string]bool{}
						for _, h := range st.hist {
							set[atomOps[h.op].name] = true
						}
						var names []string
						for k := range set {
							names = append(names, k)
						}
						sort.Strings(names)
						return "not linearizable: " + strings.Join(names, " + "), why, o
					}
					return "", "", o
				},
			}
		}
		fam := &vf.Family{
			Name:     "atom-scenarios",
			Bounds:   fmt.Sprintf("all multisets of 2 threads x 1 op, 3 threads x 1 op, one op against a thread issuing three writes, a swap! under the caller context against a thread that writes, ends that context and uses the atom again (bound 3; switching at the boundary between two operations of a thread is a free yield, not a preemption), (2 ops || 1 op) over %d atom operations and, thorough, (2 ops || 2 ops) over the first 11 of them, (incl. a swap! under a caller context that another thread ends) on atoms a, b, w (a sequence: list or vector) (and k, which holds what an update function kept of its rest arguments); per scenario all interleavings at lock operations and hook points of lib/concurrent up to preemption bound 2 (quick) / 3 (thorough), capped at 20000 (quick) / 200000 (thorough) executions per scenario", len(atomOps)),
			Setup:    setup,
			Timeout:  120 * time.Second,
			N:        func(t string) int64 { tier = t; return int64(len(plansOf())) },
			Describe: func(i int64) string { return planStr(plansOf()[i]) },
			Run: func(i int64, r *vf.Rec) {
				plan := plansOf()[i]
				bound, maxEx := 2, 20000
				if tier == "thorough" {
					bound, maxEx = 3, 200000
				}
				if len(plan) == 2 && len(plan[1]) == 3 {
					bound, maxEx = 3, 400000 // three lost races in a row need three preemptions
				}
				res := explore.Explore(mkScenario(plan), bound, maxEx, time.Now().Add(60*time.Second))
				r.Exec(int64(res.Execs))
				if res.Execs > 8000 {
					r.Note(fmt.Sprintf("heavy scenario (%d executions, complete=%v): %s", res.Execs, res.Complete, planStr(plan)))
				}
				if res.WithSwitch > 0 {
					r.NT()
				}
				if res.Internal != "" {
					r.Violation(res.Internal, planStr(plan))
					return
				}
				if !res.Complete {
					r.Cap(fmt.Sprintf("scenario capped before completing bound %d", bound))
					r.Note("scenario not fully explored (cap)")
				} else {
					r.Outcome(fmt.Sprintf("scenarios completed at preemption bound %d", res.BoundCompleted))
				}
				r.Outcome(fmt.Sprintf("distinct observed outcomes per scenario: %d", minInt(len(res.Outcomes), 9)))
				for _, v := range res.Violations {
					r.Violation(v.Sig, fmt.Sprintf("first seen at preemption bound %d\n%s", v.Bound, v.Detail))
				}
			},
		}
		// a directed schedule beyond the preemption bound: one swap! against a thread that writes 40 times,
		// the scheduler switching to the writer every time the swap! has read the atom, so the swap! loses
		// 40 rounds in a row before it can win (one execution per operation: not an exploration)
		advOps := []string{"swap!-inc", "swap!-plus", "swap!-reads-itself", "swap!-reads-b", "swap!-a-updates-b", "swap!-builtin-calling-back", "swap!-keeps-rest-args", "swap!-failing-fn"}
		adversary := &vf.Family{
			Name:     "directed-forty-lost-rounds",
			Bounds:   fmt.Sprintf("%d swap! operations, each against a thread issuing 40 reset! in a row under a directed schedule in which the swap! loses every round until the writer is done: the swap! must still complete, nothing deadlocks, and the final value is what the last round computes", len(advOps)),
			Setup:    setup,
			Timeout:  120 * time.Second,
			N:        func(string) int64 { return int64(len(advOps)) },
			Describe: func(i int64) string { return advOps[i] + " against 40 writes, losing every round" },
			Run: func(i int64, r *vf.Rec) {
				op := -1
				for k, o := range atomOps {
					if o.name == advOps[i] {
						op = k
					}
				}
				writes := make([]int, 40)
				for k := range writes {
					writes[k] = 1 // reset!
				}
				sc := mkScenario([][]int{{op}, writes})
				s := vcore.New(nil, vcore.NewReduction(false))
				s.VisibleClass = [3]bool{sc.VisibleEnv, sc.VisibleAtom, sc.VisibleHook}
				s.Policy = func(label string, cur int, enabled []int) int {
					want := -1
					switch {
					case cur == 0 && label == "swap.read":
						want = 1 // the swap! has read the atom: let the writer write now
					case cur == 1 && strings.HasPrefix(label, "op-next"):
						want = 0 // one write done: back to the swap!
					}
					for k, id := range enabled {
						if id == want {
							return k
						}
					}
					return 0
				}
				s.BeginSetup()
				st := sc.Setup()
				s.Run(sc.Threads(st)...)
				r.Exec(1)
				r.NT()
				cs := st.(*c09state)
				switch {
				case s.Deadlock:
					r.Violation("deadlock: a swap! that keeps losing rounds blocks forever ("+advOps[i]+")", strings.Join(s.Blocked, "; "))
				case s.StepCap:
					r.Violation("a swap! that keeps losing rounds never completes ("+advOps[i]+")", "step cap reached")
				default:
					for _, h := range cs.hist {
						if strings.HasPrefix(h.result, "PANIC") {
							r.Violation("panic in atom operation "+atomOps[h.op].name, h.result)
						}
					}
					lost := 0
					for _, p := range s.Points {
						if p.Label == "swap.read" && p.Cur == 0 {
							lost++
						}
					}
					r.Outcome(fmt.Sprintf("completed after %d attempts", lost))
				}
			},
		}
		return &vf.Check{
			RacePass: c09RacePass,
			ID:       "C09", Level: "model_checking",
			Rule:        "every scenario (threads x atom operations) is explored by the controlled scheduler over the real lib/concurrent: every interleaving at lock operations and hook points up to the preemption bound; each complete execution's call/return history must be linearizable w.r.t. the sequential atom specification (a failing function leaves the atom unchanged, a self-reading function sees the value it is applied to, inner updates of another atom may repeat) and no execution may deadlock; non-trivial = scenario with at least one context switch inside an operation",
			Assumptions: []string{"unsynchronised accesses between scheduling points are not seen by the cooperative scheduler (see the race pass)", "an update function updating its own atom is excluded by the property"},
			Families:    []*vf.Family{fam, adversary},
		}
	})
}

// callf is a Go builtin that applies its second argument to its first (a higher-order builtin).
func c09InstallCallf(base types.EnvType) {
	call.CallOverrideFN(base, "callf", func(ctx context.Context, x types.MalType, f types.MalType) (types.MalType, error) {
		return types.Apply(ctx, f, []types.MalType{x})
	})
}

// c09conj3: what (conj w 3) gives for the printed form of a list or a vector of ints
func c09conj3(w string) string {
	if strings.HasPrefix(w, "[") {
		return strings.TrimSuffix(w, "]") + " 3]"
	}
	return "(3 " + strings.TrimPrefix(w, "(")
}

func minInt(a, b int) int {
	if a < b {
		return a
	}
	return b
}
