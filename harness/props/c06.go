package props

import (
	"context"
	"fmt"
	"math"
	"strconv"
	"strings"

	lisp "github.com/jig/lisp"
	"github.com/jig/lisp/types"

	"verifharness/internal/enum"
	"verifharness/internal/lx"
	"verifharness/internal/model"
	"verifharness/internal/vf"
)

// character alphabet for strings: every escaping-relevant character
var c06Chars = []string{"a", `"`, `\`, "n", "\n", "\t", "\r", "¬", "ʞ", "{", "}", ";", "$", "(", " ", "😀", ":", "\ufeff", "\x00",
	// the tails of escape sequences other languages know (after a backslash): \t \r \uXXXX \xXX \UXXXXXXXX \101
	"t", "r", "u00e9", "x41", "U0001F600", "101"}

// identifier characters (scanner's isIdentRune alphabet, reduced)
var c06IdentChars = []string{"a", "b", "-", "1", "/", "<", "=", "ü", "*", "+", "?", "!", "_", ">", "$", "ʞ", "٣"} // ٣: a non-ASCII decimal digit

func isIdentStart(c string) bool { return c != "-" && c != "1" && c != "٣" }

// validSymbol: spellings the scanner returns as one Ident token that read_atom turns
// into a symbol (transcribed from the scanner's documented identifier rule).
func validSymbol(chars []string) bool {
	if len(chars) == 0 {
		return false
	}
	s := strings.Join(chars, "")
	if s == "nil" || s == "true" || s == "false" || chars[0] == "$" {
		return false
	}
	if chars[0] == "-" {
		return len(chars) == 1 || (isIdentStart(chars[1]))
	}
	return isIdentStart(chars[0])
}

type c06rig struct {
	env types.EnvType
}

// roundTrip prints v with the real printer, reads it back with the real reader and
// compares with the model's structural equality. Returns "" or a failure description.
func (rg *c06rig) roundTrip(v V, r *vf.Rec) string {
	impl := model.ToImpl(v)
	var text string
	if p := lx.Guard(func() { text = lisp.PRINT(impl) }); p != nil {
		return "PRINT panicked: " + p.String()
	}
	var back types.MalType
	var err error
	if p := lx.Guard(func() { back, err = lisp.READ(text, nil, nil) }); p != nil {
		return "READ of printed text panicked: " + p.String()
	}
	r.Exec(1)
	if err != nil {
		return fmt.Sprintf("printed text %q does not read back: %v", text, err)
	}
	if got := model.FromImpl(back); !model.Equal(got, v) {
		return fmt.Sprintf("printed %q reads back as %s, expected %s", text, got.String(), v.String())
	}
	// (read-string (pr-str 'v))
	q := types.List{Val: []types.MalType{types.Symbol{Val: "quote"}, impl}}
	ast := types.List{Val: []types.MalType{types.Symbol{Val: "read-string"}, types.List{Val: []types.MalType{types.Symbol{Val: "pr-str"}, q}}}}
	res, err, p := lx.Eval(context.Background(), ast, rg.env)
	r.Exec(1)
	if p != nil {
		return "read-string/pr-str panicked: " + p.String()
	}
	if err != nil {
		return fmt.Sprintf("(read-string (pr-str v)) fails: %v", err)
	}
	if got := model.FromImpl(res); !model.Equal(got, v) {
		return fmt.Sprintf("(read-string (pr-str v)) gives %s, expected %s", got.String(), v.String())
	}
	return ""
}

var c06Contexts = []struct {
	name string
	wrap func(V) (V, bool)
}{
	{"bare", func(v V) (V, bool) { return v, true }},
	{"in-list", func(v V) (V, bool) { return model.List(model.Int(1), v), true }},
	{"in-vector", func(v V) (V, bool) { return model.Vec(v, model.Nil), true }},
	{"map-value", func(v V) (V, bool) { return model.MapOf(model.MapEntry{K: model.Key{S: "k"}, V: v}), true }},
	{"map-key", func(v V) (V, bool) {
		k, ok := v.AsKey()
		return model.MapOf(model.MapEntry{K: k, V: model.Int(1)}), ok
	}},
	{"set-member", func(v V) (V, bool) {
		k, ok := v.AsKey()
		return model.SetOf(k), ok
	}},
	{"nested", func(v V) (V, bool) {
		return model.List(model.Vec(model.MapOf(model.MapEntry{K: model.Key{Kw: true, S: "k"}, V: model.List(v)}))), true
	}},
}

func charNames(s string) string {
	var parts []string
	for _, r := range s {
		parts = append(parts, fmt.Sprintf("U+%04X", r))
	}
	return strings.Join(parts, " ")
}

// minimise removes runes while the round trip still fails.
func (rg *c06rig) minimise(s string, mk func(string) V, r *vf.Rec) string {
	rs := []rune(s)
	for changed := true; changed; {
		changed = false
		for i := range rs {
			cand := append(append([]rune{}, rs[:i]...), rs[i+1:]...)
			if len(cand) > 0 && strings.HasPrefix(string(cand), "ʞ") {
				continue
			}
			if rg.roundTrip(mk(string(cand)), r) != "" {
				rs, changed = cand, true
				break
			}
		}
	}
	// neutralise every rune that is not needed for the failure
	for i := range rs {
		if rs[i] == 'a' {
			continue
		}
		cand := append([]rune{}, rs...)
		cand[i] = 'a'
		if rg.roundTrip(mk(string(cand)), r) != "" {
			rs = cand
		}
	}
	return string(rs)
}

func c06ValueGrammar(maxW int) *enum.Grammar {
	const VAL, KEY = 0, 1
	keys := []enum.Prod{
		leaf(`"a"`, model.Str("a")), leaf(":k", model.Kw("k")), leaf(`""`, model.Str("")), leaf(`:a/b`, model.Kw("a/b")),
		leaf(`"x y"`, model.Str("x y")), leaf(`"\"" `, model.Str(`"`)),
	}
	vals := []enum.Prod{
		leaf("nil", model.Nil), leaf("true", model.Bool(true)), leaf("false", model.Bool(false)),
		leaf("0", model.Int(0)), leaf("-1", model.Int(-1)), leaf("min", model.Int(math.MinInt64)), leaf("max", model.Int(math.MaxInt64)),
		leaf(`""`, model.Str("")), leaf(`"a"`, model.Str("a")), leaf(`"\\"`, model.Str(`\`)), leaf(`json`, model.Str(`{"a":1}`)),
		leaf(":k", model.Kw("k")), leaf("sym", sym("a-1")), leaf("&", sym("&")), leaf("-", sym("-")),
		leaf("()", model.List()), leaf("[]", model.Vec()), leaf("{}", model.MapOf()), leaf("#{}", model.SetOf()),
	}
	for n := 1; n <= 3; n++ {
		n := n
		kids := make([]int, n)
		vals = append(vals,
			enum.Prod{Name: fmt.Sprintf("list%d", n), Weight: 1, Kids: kids, Build: func(k []V) V { return model.List(append([]V{}, k...)...) }},
			enum.Prod{Name: fmt.Sprintf("vec%d", n), Weight: 1, Kids: kids, Build: func(k []V) V { return model.Vec(append([]V{}, k...)...) }},
		)
	}
	vals = append(vals,
		enum.Prod{Name: "map1", Weight: 1, Kids: []int{KEY, VAL}, Build: func(k []V) V {
			k0, _ := k[0].AsKey()
			return model.MapOf(model.MapEntry{K: k0, V: k[1]})
		}},
		enum.Prod{Name: "map2", Weight: 1, Kids: []int{KEY, VAL, KEY, VAL}, Build: func(k []V) V {
			k0, _ := k[0].AsKey()
			k1, _ := k[2].AsKey()
			return model.MapOf(model.MapEntry{K: k0, V: k[1]}, model.MapEntry{K: k1, V: k[3]})
		}},
		enum.Prod{Name: "set1", Weight: 1, Kids: []int{KEY}, Build: func(k []V) V { k0, _ := k[0].AsKey(); return model.SetOf(k0) }},
		enum.Prod{Name: "set2", Weight: 1, Kids: []int{KEY, KEY}, Build: func(k []V) V {
			k0, _ := k[0].AsKey()
			k1, _ := k[1].AsKey()
			return model.SetOf(k0, k1)
		}},
	)
	return enum.New([][]enum.Prod{vals, keys}, maxW)
}

var c06TextTokens = []string{
	"(", ")", "[", "]", "{", "}", "#{", "'", "`", "~", "~@", "^", "@",
	"$x", "a", ":k", "1", "-", `"s"`, "¬r¬", ";c\n", "nil", "#", "&", `"\\n\""`, "-7", "0x1F", "1_000", ":", "a/b",
}

func init() {
	vf.Register("C06", func() *vf.Check {
		rg := &c06rig{}
		var tier string
		setup := func(t string) { tier = t; rg.env = lx.NewFullEnv() }
		strLen := func() int {
			if tier == "thorough" {
				return 4
			}
			return 3
		}
		nCtx := int64(len(c06Contexts))
		strOf := func(i int64) (string, int) {
			d := seqSpace{len(c06Chars), strLen()}.unrank(i / nCtx)
			var sb strings.Builder
			for _, x := range d {
				sb.WriteString(c06Chars[x])
			}
			return sb.String(), int(i % nCtx)
		}
		strFam := &vf.Family{
			Name:     "strings",
			Bounds:   fmt.Sprintf("every string of <=3 (quick) / <=4 (thorough) characters over %d escaping-relevant characters (quote, backslash, n, LF, TAB, CR, raw quote, U+029E, braces, ;, $, (, space, emoji, colon, BOM, NUL, and the tails of the escape sequences t, r, uXXXX, xXX, UXXXXXXXX, octal), not starting with U+029E, in %d contexts (bare, list, vector, map value, map key, set member, nested); plus JSON-looking strings", len(c06Chars), len(c06Contexts)),
			Setup:    setup,
			N:        func(t string) int64 { tier = t; return seqSpace{len(c06Chars), strLen()}.size() * nCtx },
			Describe: func(i int64) string { s, c := strOf(i); return strconv.Quote(s) + " " + c06Contexts[c].name },
			Run: func(i int64, r *vf.Rec) {
				s, c := strOf(i)
				if strings.HasPrefix(s, "ʞ") {
					return // that Go string *is* a keyword by construction
				}
				variants := []string{s}
				if c == 0 {
					variants = append(variants, `{"`+s+`}`, `{"`+s+`"}`) // switches the printer to raw form
					variants = append(variants, s+`{"a":1}`, `{"a":1}`+s, s+`{"a":1}`+s)
				}
				for _, sv := range variants {
					sv := sv
					v, ok := c06Contexts[c].wrap(model.Str(sv))
					if !ok {
						return
					}
					r.NT()
					if msg := rg.roundTrip(v, r); msg != "" {
						mk := func(x string) V { w, _ := c06Contexts[c].wrap(model.Str(x)); return w }
						min := rg.minimise(sv, mk, r)
						r.ViolationCase("string round trip fails; minimal string "+charNames(min), strconv.Quote(sv)+" "+c06Contexts[c].name, msg)
					}
				}
			},
		}
		idLen := 3
		idFam := &vf.Family{
			Name:   "symbols-keywords",
			Bounds: fmt.Sprintf("every symbol spelling and every keyword spelling of <=%d characters over %d identifier characters that the scanner's identifier rule accepts as one token (never nil/true/false/$...), bare, in a list, and (keywords) as map key", idLen, len(c06IdentChars)),
			Setup:  setup,
			N:      func(t string) int64 { tier = t; return seqSpace{len(c06IdentChars), idLen}.size() * 2 },
			Describe: func(i int64) string {
				d := seqSpace{len(c06IdentChars), idLen}.unrank(i / 2)
				var cs []string
				for _, x := range d {
					cs = append(cs, c06IdentChars[x])
				}
				return []string{"symbol ", "keyword :"}[i%2] + strings.Join(cs, "")
			},
			Run: func(i int64, r *vf.Rec) {
				d := seqSpace{len(c06IdentChars), idLen}.unrank(i / 2)
				var cs []string
				for _, x := range d {
					cs = append(cs, c06IdentChars[x])
				}
				sp := strings.Join(cs, "")
				var vals []V
				if i%2 == 0 {
					if !validSymbol(cs) {
						return
					}
					vals = []V{sym(sp), model.List(sym(sp), sym(sp)), model.Vec(sym(sp))}
				} else {
					k := model.Kw(sp)
					vals = []V{k, model.List(k, model.Int(1)), model.MapOf(model.MapEntry{K: model.Key{Kw: true, S: sp}, V: k}), model.SetOf(model.Key{Kw: true, S: sp})}
				}
				r.NT()
				for _, v := range vals {
					if msg := rg.roundTrip(v, r); msg != "" {
						r.Violation("identifier round trip fails: "+[]string{"symbol", "keyword"}[i%2]+" containing "+charNames(sp), msg)
						return
					}
				}
			},
		}
		vW := func() int {
			if tier == "thorough" {
				return 5
			}
			return 4
		}
		var vg *enum.Grammar
		vgOf := func() *enum.Grammar {
			if vg == nil {
				vg = c06ValueGrammar(vW())
			}
			return vg
		}
		valFam := &vf.Family{
			Name:     "nested-values",
			Bounds:   "all data values of weight <=4 (quick) / <=5 (thorough) over 19 atoms/empty collections (incl. MinInt64, MaxInt64, backslash, JSON-looking string), lists/vectors of 1-3, maps of 1-2 entries and sets of 1-2 members over 6 keys",
			Setup:    setup,
			N:        func(t string) int64 { tier = t; return vgOf().Count(0, vW()) },
			Describe: func(i int64) string { return vgOf().Unrank(0, i).String() },
			Run: func(i int64, r *vf.Rec) {
				v := vgOf().Unrank(0, i)
				if v.K >= model.KList {
					r.NT()
				}
				if msg := rg.roundTrip(v, r); msg != "" {
					r.Violation("nested value round trip fails", msg)
				}
			},
		}
		tLen := func() int {
			if tier == "thorough" {
				return 5
			}
			return 4
		}
		textOf := func(i int64) string {
			d := seqSpace{len(c06TextTokens), tLen()}.unrank(i)
			parts := make([]string, len(d))
			for j, x := range d {
				parts[j] = c06TextTokens[x]
			}
			return strings.Join(parts, " ")
		}
		textFam := &vf.Family{
			Name:     "accepted-texts",
			Bounds:   fmt.Sprintf("every sequence of <=4 (quick) / <=5 (thorough) tokens over %d float-free tokens that READ accepts: READ(PRINT(READ(t))) = READ(t)", len(c06TextTokens)),
			Setup:    setup,
			N:        func(t string) int64 { tier = t; return seqSpace{len(c06TextTokens), tLen()}.size() },
			Describe: func(i int64) string { return strconv.Quote(textOf(i)) },
			Run: func(i int64, r *vf.Rec) {
				t := textOf(i)
				first, err, p := lx.Read(t)
				r.Exec(1)
				if p != nil || err != nil {
					return // not an accepted text (panics are C05's)
				}
				r.NT()
				v := model.FromImpl(first)
				var text string
				if p := lx.Guard(func() { text = lisp.PRINT(first) }); p != nil {
					r.Violation("PRINT panics on READ result", p.String())
					return
				}
				second, err, p := lx.Read(text)
				r.Exec(1)
				if p != nil {
					r.Violation("READ panics on printed text", p.String())
					return
				}
				if err != nil {
					r.Violation("accepted text does not survive print/read: printed form unreadable", fmt.Sprintf("READ(%q) = %s; PRINT = %q; reading that fails: %v", t, v.String(), text, err))
					return
				}
				if got := model.FromImpl(second); !model.Equal(got, v) {
					r.Violation("accepted text does not survive print/read: value changed", fmt.Sprintf("READ(%q) = %s; PRINT = %q; reads back as %s", t, v.String(), text, got.String()))
				}
			},
		}
		return &vf.Check{
			ID: "C06", Level: "model_checking",
			Rule:        "every data value of the bounded spaces is printed by the real printer, read back by the real reader (and through read-string/pr-str) and compared with the original by the model's independent structural equality; every accepted float-free text of the token space is read, printed and re-read; non-trivial = the case was a well-formed value / an accepted text",
			Assumptions: []string{"valid UTF-8 strings only; symbol/keyword spellings restricted to what the scanner's identifier rule returns as one token", "floats are out of scope as stated by the property"},
			Families:    []*vf.Family{strFam, idFam, valFam, textFam},
		}
	})
}
