package props

import (
	"context"
	"fmt"
	lisp "github.com/jig/lisp"
	"github.com/jig/lisp/debuggertypes"
	"runtime"
	"runtime/debug"
	"strings"

	"github.com/jig/lisp/env"
	"github.com/jig/lisp/lib/call"
	"github.com/jig/lisp/types"

	"verifharness/internal/lx"
	"verifharness/internal/model"
	"verifharness/internal/vf"
)

// tail-position contexts named by the property; @ is the hole
var c08Wraps = []struct{ name, text string }{
	{"do-last", "(do 1 @)"},
	{"let-body-last", "(let [z 1] z @)"},
	{"let-empty-bindings", "(let [] 1 @)"},
	{"let-list-bindings", "(let (z 1) @)"},
	{"if-then", "(if true @ 0)"},
	{"if-else", "(if false 0 @)"},
	{"cond-clause", "(cond false 0 true @)"},
	{"and-last", "(and true @)"},
	{"or-last", "(or false @)"},
	{"fn-body-last", "((fn [] 1 @))"},
	{"quasiquote-of-unquote", "(quasiquote (unquote @))"},
}

type c08shape struct {
	wraps []int
	funcs int // 1 = self recursion, 2/3 = mutual recursion over that many functions
}

func c08Shapes(depth int) []c08shape {
	var out []c08shape
	sp := seqSpace{len(c08Wraps), depth}
	for i := int64(0); i < sp.size(); i++ {
		w := sp.unrank(i)
		for k := 1; k <= 3; k++ {
			out = append(out, c08shape{w, k})
		}
	}
	return out
}

func (s c08shape) names() string {
	var p []string
	for _, w := range s.wraps {
		p = append(p, c08Wraps[w].name)
	}
	if len(p) == 0 {
		p = []string{"direct"}
	}
	return fmt.Sprintf("%s x %d function(s)", strings.Join(p, ">"), s.funcs)
}

// program text: functions f0..f(k-1); fi calls f(i+1 mod k) in tail position through the wraps.
func (s c08shape) program(n int, nonTail bool) string { return s.programVia(n, nonTail, 0) }

// route 0: (def f (fn ...)) written in the text; route 1: the functions are defined through a
// defn-style macro, so their (fn ...) forms are built by quasiquote and carry no source position;
// route 2: as route 0, but the whole program is handed over as an AST without any source position
// (as built from Go).
// route 3: every function is defined in a module of its own (each def read under another module name);
// route 4: the recursive call form itself is built by a user macro, nested inside its expansion.
var c08Routes = []string{"fn forms written in the text", "functions defined through a defn-style macro", "program given as an AST without source positions",
	"every function defined in a module of its own", "recursive call built by a user macro inside its expansion",
	"functions with a rest parameter, called with extra arguments", "functions whose only parameter is a rest parameter"}

var c08Contexts = []string{"background", "cancellable, never cancelled", "deadline one hour away", "cancellable child of a context with a deadline", "context carrying a value"}

func (s c08shape) programVia(n int, nonTail bool, route int) string {
	var sb strings.Builder
	sb.WriteString("(do ")
	if route == 1 {
		sb.WriteString("(defmacro defn0 (fn [name params & body] `(def ~name (fn ~params ~@body)))) ")
	}
	if route == 4 {
		sb.WriteString("(defmacro callm (fn [f & args] `(do 1 (~f ~@args)))) ")
	}
	for i := 0; i < s.funcs; i++ {
		callee := fmt.Sprintf("(f%d (- n 1))", (i+1)%s.funcs)
		if route == 4 {
			callee = fmt.Sprintf("(callm f%d (- n 1))", (i+1)%s.funcs)
		}
		params, head := "[n]", ""
		if route == 5 {
			params = "[n & more]"
			callee = fmt.Sprintf("(f%d (- n 1) n more)", (i+1)%s.funcs)
		}
		if route == 6 {
			params, head = "[& all]", "(def n (first all)) "
			callee = fmt.Sprintf("(f%d (- n 1) n)", (i+1)%s.funcs)
		}
		if nonTail {
			callee = "(+ 0 " + callee + ")"
		}
		body := callee
		for j := len(s.wraps) - 1; j >= 0; j-- {
			body = strings.Replace(c08Wraps[s.wraps[j]].text, "@", body, 1)
		}
		if route == 1 {
			fmt.Fprintf(&sb, "(defn0 f%d [n] (depth!) (if (<= n 0) 0 %s)) ", i, body)
			continue
		}
		fmt.Fprintf(&sb, "(def f%d (fn %s %s(depth!) (if (<= n 0) 0 %s))) ", i, params, head, body)
	}
	fmt.Fprintf(&sb, "(f0 %d))", n)
	return sb.String()
}

func init() {
	vf.Register("C08", func() *vf.Check {
		var base types.EnvType
		var depths []int
		pcs := make([]uintptr, 8192)
		var tier string
		setup := func(t string) {
			tier = t
			base = lx.NewFullEnv()
			call.CallOverrideFN(base, "depth!", func() (types.MalType, error) {
				depths = append(depths, runtime.Callers(0, pcs))
				return nil, nil
			})
			if t == "thorough" {
				// a non-tail loop of 20000 iterations needs far more than this (>= 300 bytes per EVAL frame)
				debug.SetMaxStack(1 << 20)
			}
		}
		var shapes []c08shape
		shapesOf := func() []c08shape {
			if shapes == nil {
				d := 2
				if tier == "thorough" {
					d = 3
				}
				shapes = c08Shapes(d)
			}
			return shapes
		}
		// the context the evaluation runs under: 0 = background, 1 = cancellable (never cancelled), 2 = with a deadline
		// one hour away, 3 = cancellable child of a context with a deadline, 4 = a context carrying a value
		evalCtx := 0
		type c08key struct{}
		ctxOf := func() (context.Context, func()) {
			switch evalCtx {
			case 1:
				return context.WithCancel(context.Background())
			case 2:
				return context.WithTimeout(context.Background(), 3600e9)
			case 3:
				p, c1 := context.WithTimeout(context.Background(), 3600e9)
				c, c2 := context.WithCancel(p)
				return c, func() { c2(); c1() }
			case 4:
				return context.WithValue(context.Background(), c08key{}, 1), func() {}
			}
			return context.Background(), func() {}
		}
		runVia := func(text string, route int) ([]int, error, *lx.Panic) {
			ctx, cancel := ctxOf()
			defer cancel()
			depths = depths[:0]
			scope := env.NewSubordinateEnv(base)
			ast := lx.MustRead(text)
			if route == 2 {
				ast = model.ToImpl(model.FromImpl(ast)) // the same program, no source positions
			}
			if route == 3 {
				// the forms of the (do ..) program, each read under a module name of its own
				var err error
				var p *lx.Panic
				for k, f := range ast.(types.List).Val[1:] {
					one, rerr := lisp.READ(lisp.PRINT(f), types.NewCursorFile(fmt.Sprintf("module-%d", k)), nil)
					if rerr != nil {
						return nil, rerr, nil
					}
					if _, err, p = lx.Eval(ctx, one, scope); err != nil || p != nil {
						break
					}
				}
				return append([]int{}, depths...), err, p
			}
			_, err, p := lx.Eval(ctx, ast, scope)
			return append([]int{}, depths...), err, p
		}
		run := func(text string) ([]int, error, *lx.Panic) { return runVia(text, 0) }
		fam := &vf.Family{
			Name:     "loop-shapes",
			Bounds:   "every nesting of depth 0..2 (quick) / 0..3 (thorough) of the 11 tail-position constructs (do-last, let-body-last, let with empty / list-form bindings, if-then, if-else, cond clause, and-last, or-last, fn-body-last, a fully unquoted quasiquote) around the recursive call x {self, 2-way mutual, 3-way mutual recursion} x 5 kinds of context the evaluation runs under (background; cancellable and never cancelled; deadline one hour away; cancellable child of a context with a deadline; a context carrying a value: 50 iterations each on the text route, the other routes under one of the non-background kinds) x 7 routes (fn forms written in the text; functions defined through a defn-style macro; whole program as an AST without source positions; every function in a module of its own; the recursive call built by a user macro inside its expansion; functions with a rest parameter called with extra arguments; functions whose only parameter is a rest parameter); iteration counts 3, 5, 50 (host stack depth at every iteration); the plain recursions and every single construct around a self call also run 150 000 iterations to completion (thorough: all shapes of nesting depth <=1, 400 000 iterations), thorough: additionally 20000 iterations under a 1 MiB stack limit",
			Setup:    setup,
			Timeout:  1500e9,
			N:        func(t string) int64 { tier = t; return int64(len(shapesOf())) },
			Describe: func(i int64) string { s := shapesOf()[i]; return s.names() + ": " + s.program(50, false) },
			Run: func(i int64, r *vf.Rec) {
				s := shapesOf()[i]
				r.NT()
				// a stepper session that ended in the middle of a step-out, then no stepper: the loops that follow
				// must be flat all the same (the stepping flags are process-wide)
				if i%7 == 0 {
					lisp.Stepper = func(a types.MalType, e types.EnvType) debuggertypes.Command { return debuggertypes.Out }
					lx.Eval(context.Background(), lx.MustRead("(do (+ 1 2) 3)"), env.NewSubordinateEnv(base))
					lx.Eval(context.Background(), lx.MustRead("(+ 1 2)"), env.NewSubordinateEnv(base))
					lisp.Stepper = nil
				}
				defer func() { evalCtx = 0 }()
				for _, rn := range []struct{ route, n, ctx int }{{0, 3, 0}, {0, 5, 0}, {0, 50, 0}, {1, 5, 0}, {1, 50, 0}, {2, 5, 0}, {2, 50, 0}, {3, 5, 0}, {3, 50, 0}, {4, 5, 0}, {4, 50, 0}, {5, 5, 0}, {5, 50, 0}, {6, 5, 0}, {6, 50, 0},
					{0, 50, 1}, {0, 50, 2}, {0, 50, 3}, {0, 50, 4}, {2, 50, 2}, {1, 50, 3}, {4, 50, 2}, {5, 50, 1}, {3, 50, 2}} {
					n := rn.n
					evalCtx = rn.ctx
					d, err, p := runVia(s.programVia(n, false, rn.route), rn.route)
					evalCtx = 0
					r.Exec(1)
					if rn.route != 0 {
						r.Outcome("route: " + c08Routes[rn.route])
					}
					if rn.ctx != 0 {
						r.Outcome("context: " + c08Contexts[rn.ctx])
					}
					if p != nil || err != nil {
						r.Violation("tail-recursive loop fails", fmt.Sprintf("%s n=%d (%s; context: %s): err=%v panic=%v", s.names(), n, c08Routes[rn.route], c08Contexts[rn.ctx], err, p))
						return
					}
					if len(d) != n+1 {
						r.Violation("harness: unexpected number of iterations", fmt.Sprintf("%s n=%d: %d probes", s.names(), n, len(d)))
						return
					}
					// iterations 2..n (the first one is entered from the top-level call)
					for k := 2; k < len(d); k++ {
						if d[k] != d[1] {
							r.Violation("host stack depth grows in a tail-recursive loop", fmt.Sprintf("%s n=%d (%s; context: %s): depth at iteration 2 is %d, at iteration %d is %d (depths %v)", s.names(), n, c08Routes[rn.route], c08Contexts[rn.ctx], d[1], k+1, d[k], trunc(d, 12)))
							return
						}
					}
				}
				if tier == "thorough" {
					d, err, p := run(s.program(20000, false))
					r.Exec(1)
					if p != nil || err != nil || len(d) != 20001 {
						r.Violation("long tail-recursive loop does not complete", fmt.Sprintf("%s: err=%v panic=%v probes=%d", s.names(), err, p, len(d)))
						return
					}
				}
				// loops of any length complete: a long run for the shapes of nesting depth <= 1 (the depth probe
				// is switched off: only completion counts)
				if (tier == "thorough" && len(s.wraps) <= 1) || len(s.wraps) == 0 || (len(s.wraps) == 1 && s.funcs == 1) {
					long := 150000
					if tier == "thorough" {
						long = 400000
					}
					text := strings.Replace(s.program(long, false), "(depth!)", "", -1)
					_, err, p := run(text)
					r.Exec(1)
					if p != nil || err != nil {
						r.Violation("long tail-recursive loop does not complete", fmt.Sprintf("%s n=%d: err=%v panic=%v", s.names(), long, err, p))
						return
					}
				}
				// negative control: the same loop with the call in non-tail position must grow
				// (guards against a vacuous probe)
				if i%16 == 0 {
					d, _, _ := run(s.program(6, true))
					if len(d) < 6 || d[5] <= d[1] {
						r.Violation("harness: depth probe does not see growth of a non-tail loop (vacuous probe)", fmt.Sprint(d))
					}
				}
			},
		}
		return &vf.Check{
			ID: "C08", Level: "model_checking",
			Rule:        "every loop shape of the bounded space runs on the real EVAL with a Go builtin recording runtime.Callers at every iteration; depths at iterations 2..n must all be equal for n = 3, 5, 50 (and the loop must complete 20000 iterations under a reduced stack limit in the thorough tier; a fatal stack overflow is attributed to the shape by the worker supervisor); a negative control with the call in non-tail position must show growth; every case is non-trivial",
			Assumptions: []string{"iteration counts above those run are covered by the equal-depth argument: depth equal at every one of 50 consecutive iterations means the loop re-enters the same frame"},
			Families:    []*vf.Family{fam},
		}
	})
}

func trunc(d []int, n int) []int {
	if len(d) > n {
		return d[:n]
	}
	return d
}
