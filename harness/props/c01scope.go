package props

import (
	"verifharness/internal/enum"
	"verifharness/internal/model"
)

// c01ScopeProds: a deliberately tiny alphabet (x, y, 1, (t! x)) with only scope-forming
// constructs, so that deep nestings (closure made in one scope, shadowing let in tail
// position, call) are within reach of exhaustive enumeration.
func c01ScopeProds(full bool) []enum.Prod {
	ps := []enum.Prod{
		leaf("x", sym("x")), leaf("y", sym("y")), leaf("1", model.Int(1)), leaf("2", model.Int(2)),
		node("let-x", 2, func(k []V) V { return form("let", model.Vec(sym("x"), k[0]), k[1]) }),
		node("let-y", 2, func(k []V) V { return form("let", model.Vec(sym("y"), k[0]), k[1]) }),
		node("thunk", 1, func(k []V) V { return form("fn", model.Vec(), k[0]) }),
		node("call0", 1, func(k []V) V { return model.List(k[0]) }),
		node("fn-x-applied", 2, func(k []V) V { return model.List(form("fn", model.Vec(sym("x")), k[0]), k[1]) }),
	}
	if full {
		ps = append(ps,
			node("list2", 2, func(k []V) V { return form("list", k[0], k[1]) }),
			node("if", 3, func(k []V) V { return form("if", k[0], k[1], k[2]) }),
			node("do-def-x", 2, func(k []V) V { return form("do", form("def", sym("x"), k[0]), k[1]) }),
			node("apply0", 1, func(k []V) V { return form("apply", k[0], form("list")) }),
			node("thunk-def-x", 1, func(k []V) V { return form("fn", model.Vec(), form("def", sym("x"), k[0])) }),
		)
	}
	return ps
}

func c01ScopeGrammar(maxW int, full bool) *enum.Grammar {
	return enum.New([][]enum.Prod{c01ScopeProds(full)}, maxW)
}

// PrintScopeCounts is a sizing helper.
func PrintScopeCounts() {
	g := c01ScopeGrammar(10, false)
	for w := 1; w <= 10; w++ {
		println(w, g.Count(0, w))
	}
}
