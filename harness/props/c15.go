package props

import (
	"fmt"
	"math"
	"strings"
	"time"

	lisp "github.com/jig/lisp"
	"github.com/jig/lisp/reader"
	"github.com/jig/lisp/types"

	"verifharness/internal/lx"
	"verifharness/internal/model"
	"verifharness/internal/vf"
)

type c15tmpl struct {
	text string // source text; @A / @B stand for the two placeholder tokens, @Z for an undefined one
	ast  V      // expected AST with Sym("@A"), Sym("@B"), Sym("@Z") leaves
	two  bool
}

func kw(s string) V { return model.Kw(s) }
func mp(kv ...V) V {
	var ents []model.MapEntry
	for i := 0; i+1 < len(kv); i += 2 {
		k, _ := kv[i].AsKey()
		ents = append(ents, model.MapEntry{K: k, V: kv[i+1]})
	}
	return model.MapOf(ents...)
}

func c15Templates() []c15tmpl {
	A, B, Z := sym("@A"), sym("@B"), sym("@Z")
	L, Vc, S, I := model.List, model.Vec, model.Str, model.Int
	return []c15tmpl{
		{"@A", A, false},
		{"(f @A)", L(sym("f"), A), false},
		{"'@A", L(sym("quote"), A), false},
		{"(quote (@A))", L(sym("quote"), L(A)), false},
		{"[@A {:k @A} 1]", Vc(A, mp(kw("k"), A), I(1)), false},
		{"{:k @A}", mp(kw("k"), A), false},
		{"(@A @A)", L(A, A), false},
		{`(str "@A" @A "@A x")`, L(sym("str"), S("@A"), A, S("@A x")), false},
		{"(do ; @A in a comment\n @A)", L(sym("do"), A), false},
		{"(do\n;; @A 5\n @A)", L(sym("do"), A), false},
		{"@Z", Z, false},
		{"(list @A @Z)", L(sym("list"), A, Z), false},
		{"(@A)", L(A), false},
		{`"@A"`, S("@A"), false},
		{"¬@A¬", S("@A"), false},
		{"\n\n  @A", A, false},
		{"; leading comment\n@A", A, false},
		{"(let [x @A] (if x @A x))", L(sym("let"), Vc(sym("x"), A), L(sym("if"), sym("x"), A, sym("x"))), false},
		{"`(a ~@A ~@ @A)", L(sym("quasiquote"), L(sym("a"), L(sym("unquote"), A), L(sym("splice-unquote"), A))), false},
		{"^@A [1]", L(sym("with-meta"), Vc(I(1)), A), false},
		{";; @A 5\n(list @A \"@A\")", L(sym("list"), A, S("@A")), false},
		{";; @Z 10\n;; $Id: job.lisp 1234 $\n(list @Z @A)", L(sym("list"), Z, A), false},
		{";; $MODULE m.lisp\n(list @A \"@A\")", L(sym("list"), A, S("@A")), false},
		{"(list @A @B)", L(sym("list"), A, B), true},
		{"{:x @A :y [@B]}", mp(kw("x"), A, kw("y"), Vc(B)), true},
		{"(@B @A @B)", L(B, A, B), true},
		{`[@A "@B" @B]`, Vc(A, S("@B"), B), true},
		{"(f @A ; @B\n @B @Z)", L(sym("f"), A, B, Z), true},
		{"((@A) {:k (@B)})", L(L(A), mp(kw("k"), L(B))), true},
	}
}

func c15Values() []V {
	L, Vc, S, I := model.List, model.Vec, model.Str, model.Int
	return []V{
		model.Nil, model.Bool(true), model.Bool(false), I(0), I(-1), I(math.MaxInt64), I(math.MinInt64),
		S(""), S("a"), S(`"`), S(`\`), S(`\n`), S("\n"), S("\t"), S(`a\`), S("¬"), S(`{"a":1}`), S(`{"a¬":1}`),
		S("{\"a\":\n 1}"), S("{\"\n}"), S("x\ny"), S("{\"a\":1}\n"), S("\n{\"a\":1}"), S(" {\"a\":1} "), S(";; $a 1"), S("\n;; $a 1\n"), S("$ab"), S("$a"), S("("), S(";x"), S("aʞb"), S(" x "), S("😀"),
		S("a\r"), S("\r\n"),
		kw("k"), kw("a/b"), sym("a"), sym("a-1"), sym("&"),
		L(), L(I(1), S("s"), kw("k")), L(sym("+"), I(1), I(2)), L(L(sym("a"))),
		Vc(), Vc(I(1), Vc(I(2))),
		mp(), mp(kw("k"), I(1)), mp(S("s"), Vc(I(1))),
		model.SetOf(), model.SetOf(model.Key{S: "a"}, model.Key{Kw: true, S: "k"}),
		mp(kw("k"), L(S("¬"), S(`{"a":1}`), S("l1\nl2"))),
		// text that a formatter would take for directives
		S("100%"), S("%d items"), S("100%% sure"), S("%"), S("%s%v%!"), L(S("%x"), mp(kw("k"), S("50%"))),
		// keys and set elements with control and non-printing characters, and the empty key
		mp(S("a\tb"), I(1)), mp(S("\r"), I(1), S("\x7f"), I(2)), mp(S("\u200b"), I(1), S("\u00a0"), I(2)), mp(S(""), I(0), kw("k"), I(1)),
		model.SetOf(model.Key{S: "a\tb"}, model.Key{S: ""}), L(mp(S("k\te\\y\"%"), Vc(S("\t")))),
	}
}

var c15Names = []string{"$a", "$ab", "$a-b", "$a_1", "$1", "$NUMBER", "$MODULE"} // $MODULE: also the name of the module header line

func substV(t V, m map[string]V) V {
	switch t.K {
	case model.KSym:
		if v, ok := m[t.S]; ok {
			return v
		}
		return t
	case model.KList, model.KVec:
		out := make([]V, len(t.Elems))
		for i, e := range t.Elems {
			out[i] = substV(e, m)
		}
		return V{K: t.K, Elems: out}
	case model.KMap:
		ents := make([]model.MapEntry, len(t.Ents))
		for i, e := range t.Ents {
			ents[i] = model.MapEntry{K: e.K, V: substV(e.V, m)}
		}
		return V{K: model.KMap, Ents: ents}
	case model.KStr:
		s := t.S
		for k, v := range m {
			if v.K == model.KStr && strings.HasPrefix(v.S, "\x01name:") {
				s = strings.ReplaceAll(s, k, v.S[len("\x01name:"):])
			}
		}
		return model.Str(s)
	}
	return t
}

func init() {
	vf.Register("C15", func() *vf.Check {
		tmpls := c15Templates()
		vals := c15Values()
		var tier string
		type nm struct{ a, b string }
		namePairs := func() []nm {
			var out []nm
			for i, a := range c15Names {
				for j, b := range c15Names {
					if i == j {
						continue
					}
					if tier != "thorough" && !(i == 0 || (i == 2 && j == 0) || (i == 4 && j == 5) || (i == 6 && j == 0)) {
						continue
					}
					out = append(out, nm{a, b})
				}
			}
			return out
		}
		var pairs []nm
		type cas struct {
			t  int
			np int
			v1 int
			v2 int
		}
		nv := int64(len(vals))
		sizeOf := func() int64 {
			pairs = namePairs()
			var n int64
			for _, t := range tmpls {
				if t.two {
					n += int64(len(pairs)) * nv * nv
				} else {
					n += int64(len(pairs)) * nv
				}
			}
			return n
		}
		caseOf := func(i int64) cas {
			if pairs == nil {
				pairs = namePairs()
			}
			for ti, t := range tmpls {
				sz := int64(len(pairs)) * nv
				if t.two {
					sz *= nv
				}
				if i < sz {
					c := cas{t: ti}
					c.v1 = int(i % nv)
					i /= nv
					if t.two {
						c.v2 = int(i % nv)
						i /= nv
					}
					c.np = int(i)
					return c
				}
				i -= sz
			}
			panic("c15 index")
		}
		render := func(c cas) (src string, m map[string]V, expected V) {
			t := tmpls[c.t]
			p := pairs[c.np]
			undefined := "$undefined"
			src = strings.NewReplacer("@A", p.a, "@B", p.b, "@Z", undefined).Replace(t.text)
			m = map[string]V{p.a: vals[c.v1]}
			sub := map[string]V{"@A": vals[c.v1], "@Z": model.Nil, "@B": model.Nil}
			if t.two {
				m[p.b] = vals[c.v2]
				sub["@B"] = vals[c.v2]
			}
			// strings of the template mention the placeholder *names* literally
			nameSub := map[string]V{"@A": model.Str("\x01name:" + p.a), "@B": model.Str("\x01name:" + p.b)}
			expected = substV(substStrings(t.ast, nameSub), sub)
			return
		}
		fam := &vf.Family{
			Name:   "templates-x-assignments",
			Bounds: fmt.Sprintf("%d source templates (code, quoted, nested collections, map value, twice, inside strings/raw strings/comments, undefined name, reader macros) x name pairs over %d names (3 pairs quick / all 30 thorough) x all assignments over %d data values (multi-line JSON, preamble-looking strings, CR, U+029E, nested collections)", len(tmpls), len(c15Names), len(vals)),
			Setup:  func(t string) { tier = t; pairs = nil },
			N:      func(t string) int64 { tier = t; return sizeOf() },
			Describe: func(i int64) string {
				c := caseOf(i)
				src, m, _ := render(c)
				var parts []string
				for k, v := range m {
					parts = append(parts, k+"="+v.String())
				}
				return fmt.Sprintf("%q with %s", src, strings.Join(parts, ", "))
			},
			Run: func(i int64, r *vf.Rec) {
				c := caseOf(i)
				src, m, expected := render(c)
				r.NT()
				im := map[string]types.MalType{}
				hm := &types.HashMap{Val: map[string]types.MalType{}}
				for k, v := range m {
					im[k] = model.ToImpl(v)
					hm.Val[k] = model.ToImpl(v)
				}
				sig := func(kind string) string {
					// name the most transport-relevant feature among the assigned values
					best := "plain values"
					for _, cls := range []string{"string-with-LF", "string-with-CR", "multi-line-raw-string"} {
						for _, v := range m {
							if valueClass(v) == cls {
								best = "a value is a " + cls
							}
						}
					}
					return kind + "; " + best
				}
				// direct substitution route
				var direct types.MalType
				var err error
				if p := lx.Guard(func() { direct, err = reader.Read_str(src, nil, hm) }); p != nil {
					r.Violation("Read_str with placeholders panics: "+panicSig(p), p.String())
					return
				}
				r.Exec(1)
				if err != nil {
					r.Violation(sig("Read_str(src, values) fails"), err.Error())
					return
				}
				if got := model.FromImpl(direct); !model.Identical(got, expected) {
					r.Violation(sig("Read_str(src, values) differs from the substituted template"), fmt.Sprintf("expected %s got %s", expected.String(), got.String()))
					return
				}
				// preamble transport, for every line order AddPreamble produces
				seen := map[string]bool{}
				orders := 1
				if len(m) == 2 {
					orders = 2
				}
				for try := 0; try < 64 && len(seen) < orders; try++ {
					var text string
					if p := lx.Guard(func() { text, err = lisp.AddPreamble(src, im) }); p != nil {
						r.Violation("AddPreamble panics: "+panicSig(p), p.String())
						return
					}
					if err != nil {
						r.Violation(sig("AddPreamble fails"), err.Error())
						return
					}
					if seen[text] {
						continue
					}
					seen[text] = true
					var back types.MalType
					if p := lx.Guard(func() { back, err = lisp.READWithPreamble(text, nil, nil) }); p != nil {
						r.Violation("READWithPreamble panics: "+panicSig(p), fmt.Sprintf("text %q: %s", text, p.String()))
						return
					}
					r.Exec(1)
					if err != nil {
						r.Violation(sig("READWithPreamble(AddPreamble(src, values)) fails"), fmt.Sprintf("text %q: %v", text, err))
						return
					}
					if got := model.FromImpl(back); !model.Identical(got, expected) {
						r.Violation(sig("READWithPreamble(AddPreamble(src, values)) differs from the substituted template"), fmt.Sprintf("text %q\nexpected %s\ngot      %s", text, expected.String(), got.String()))
						return
					}
				}
				if len(seen) < orders {
					r.Note("only one preamble line order observed")
				}
			},
		}
		// values whose printed form is long (a preamble line of tens of kilobytes up to a megabyte)
		bigLens := []int{1000, 4096, 32768, 65500, 65525, 65530, 65536, 70000, 200000, 1 << 20}
		bigKinds := []string{"one-line string", "multi-line JSON text", "list of integers", "vector of short strings"}
		bigValue := func(kind, n int) V {
			switch kind {
			case 0:
				return model.Str(strings.Repeat("abcdefghij", n/10+1)[:n])
			case 1:
				var sb strings.Builder
				sb.WriteString("{\n")
				for k := 0; sb.Len() < n; k++ {
					fmt.Fprintf(&sb, "  \"key%d\": \"va\\lue ¬ %d\",\n", k, k)
				}
				sb.WriteString("}")
				return model.Str(sb.String())
			case 2:
				var el []V
				for k, l := 0, 0; l < n; k++ {
					el = append(el, model.Int(k))
					l += len(fmt.Sprint(k)) + 1
				}
				return model.List(el...)
			}
			var el []V
			for k, l := 0, 0; l < n; k++ {
				el = append(el, model.Str(fmt.Sprintf("s%d", k)))
				l += len(fmt.Sprint(k)) + 4
			}
			return model.Vec(el...)
		}
		big := &vf.Family{
			Name:   "long-values",
			Bounds: fmt.Sprintf("%d kinds of value (a one-line string, multi-line JSON text, a list of integers, a vector of short strings) x %d printed lengths from 1000 bytes to 1 MiB (several around 64 KiB), transported next to two small values in (list $a $b $c)", len(bigKinds), len(bigLens)),
			N:      func(string) int64 { return int64(len(bigKinds) * len(bigLens)) },
			Describe: func(i int64) string {
				return fmt.Sprintf("%s of about %d bytes", bigKinds[i%int64(len(bigKinds))], bigLens[i/int64(len(bigKinds))])
			},
			Timeout: 120 * time.Second,
			Run: func(i int64, r *vf.Rec) {
				bv := bigValue(int(i%int64(len(bigKinds))), bigLens[i/int64(len(bigKinds))])
				src := "(list $a $b $c)"
				m := map[string]V{"$a": model.Int(7), "$b": bv, "$c": model.Str("t")}
				expected := model.List(sym("list"), model.Int(7), bv, model.Str("t"))
				im := map[string]types.MalType{}
				for k, v := range m {
					im[k] = model.ToImpl(v)
				}
				r.NT()
				seen := map[string]bool{}
				for try := 0; try < 40 && len(seen) < 6; try++ {
					var text string
					var err error
					if p := lx.Guard(func() { text, err = lisp.AddPreamble(src, im) }); p != nil || err != nil {
						r.Violation("AddPreamble fails on a long value", fmt.Sprint(err, p))
						return
					}
					if seen[text] {
						continue
					}
					seen[text] = true
					var back types.MalType
					if p := lx.Guard(func() { back, err = lisp.READWithPreamble(text, nil, nil) }); p != nil {
						r.Violation("READWithPreamble panics: "+panicSig(p), p.String())
						return
					}
					r.Exec(1)
					if err != nil {
						r.Violation("READWithPreamble(AddPreamble(src, values)) fails; a value is long", err.Error())
						return
					}
					if got := model.FromImpl(back); !model.Identical(got, expected) {
						gs := got.String()
						if len(gs) > 300 {
							gs = gs[:300] + "..."
						}
						r.Violation("READWithPreamble(AddPreamble(src, values)) differs from the substituted template; a value is long", "got "+gs)
						return
					}
				}
			},
		}
		// sources read with an EMPTY placeholder map: nothing of the source (its own leading
		// ';; $...' comment lines included) may be taken for a preamble
		emptySrcs := []struct {
			src string
			ast V
		}{
			{"(list 1)", model.List(sym("list"), model.Int(1))},
			{";; $LIMIT 10\n(list $LIMIT \"$LIMIT\")", model.List(sym("list"), model.Nil, model.Str("$LIMIT"))},
			{";; $Id: job.lisp 1234 2024-01-01 $\n(f 1)", model.List(sym("f"), model.Int(1))},
			{";; plain comment\n$a", model.Nil},
			{"\n;; $a 5\n[$a]", model.Vec(model.Nil)},
			{";; $a\n7", model.Int(7)},
		}
		empty := &vf.Family{
			Name: "empty-map", InProc: true,
			Bounds: fmt.Sprintf("%d sources (some starting with their own ';; $...' comment lines) transported with an empty and with a nil placeholder map", len(emptySrcs)),
			N:      func(string) int64 { return int64(len(emptySrcs)) * 2 },
			Describe: func(i int64) string {
				return fmt.Sprintf("%q with %s map", emptySrcs[i/2].src, []string{"an empty", "a nil"}[i%2])
			},
			Run: func(i int64, r *vf.Rec) {
				c := emptySrcs[i/2]
				m := map[string]types.MalType{}
				if i%2 == 1 {
					m = nil
				}
				r.NT()
				text, err := lisp.AddPreamble(c.src, m)
				if err != nil {
					r.Violation("AddPreamble fails with an empty map", err.Error())
					return
				}
				var back types.MalType
				if p := lx.Guard(func() { back, err = lisp.READWithPreamble(text, nil, nil) }); p != nil {
					r.Violation("READWithPreamble panics: "+panicSig(p), fmt.Sprintf("text %q", text))
					return
				}
				r.Exec(1)
				if err != nil {
					r.Violation("source with an empty placeholder map does not survive the preamble transport", fmt.Sprintf("text %q: %v", text, err))
					return
				}
				if got := model.FromImpl(back); !model.Identical(got, c.ast) {
					r.Violation("source with an empty placeholder map does not survive the preamble transport", fmt.Sprintf("text %q\nexpected %s\ngot      %s", text, c.ast.String(), got.String()))
				}
			},
		}
		// several transports read one after the other in one process: what a read returns depends on its own
		// text only (a name an earlier text defined and this one does not reads as nil)
		seqVals := []V{model.Int(3), model.Str("x"), model.Str("{\"k\":\n 1}"), model.Vec(model.Int(1), model.Kw("k"))}
		nOpt := int64(len(seqVals) + 1) // per name: absent, or one of the values
		nAsg := nOpt * nOpt
		seqLen := 3
		seqN := nAsg * nAsg * nAsg
		seqFam := &vf.Family{
			Name:   "reads-in-sequence",
			Bounds: fmt.Sprintf("every sequence of %d transports of the source [$a $b (quote $a) \"$b\"] read one after the other in one process, each with its own assignment (each of the two names absent or one of %d values: %d assignments, %d sequences); each read is compared with the template substituted with its own assignment", seqLen, len(seqVals), nAsg, seqN),
			N:      func(string) int64 { return seqN },
			Describe: func(i int64) string {
				return fmt.Sprintf("assignments #%d, #%d, #%d of [$a $b (quote $a) \"$b\"] read in sequence", i%nAsg, (i/nAsg)%nAsg, i/(nAsg*nAsg))
			},
			Run: func(i int64, r *vf.Rec) {
				r.NT()
				src := "[$a $b (quote $a) \"$b\"]"
				for k := 0; k < seqLen; k++ {
					a := i % nAsg
					i /= nAsg
					im := map[string]types.MalType{}
					va, vb := model.Nil, model.Nil
					if x := a % nOpt; x > 0 {
						va = seqVals[x-1]
						im["$a"] = model.ToImpl(va)
					}
					if x := a / nOpt; x > 0 {
						vb = seqVals[x-1]
						im["$b"] = model.ToImpl(vb)
					}
					expected := model.Vec(va, vb, model.List(sym("quote"), va), model.Str("$b"))
					text, err := lisp.AddPreamble(src, im)
					if err != nil {
						r.Violation("AddPreamble fails", err.Error())
						return
					}
					var back types.MalType
					if p := lx.Guard(func() { back, err = lisp.READWithPreamble(text, nil, nil) }); p != nil {
						r.Violation("READWithPreamble panics: "+panicSig(p), fmt.Sprintf("text %q", text))
						return
					}
					r.Exec(1)
					if err != nil {
						r.Violation("READWithPreamble fails on a transport read after others", fmt.Sprintf("read %d of the sequence, text %q: %v", k+1, text, err))
						return
					}
					if got := model.FromImpl(back); !model.Identical(got, expected) {
						r.Violation("READWithPreamble of a transport depends on the transports read before it", fmt.Sprintf("read %d of the sequence, text %q\nexpected %s\ngot      %s", k+1, text, expected.String(), got.String()))
						return
					}
				}
			},
		}
		return &vf.Check{
			ID: "C15", Level: "model_checking",
			Rule:        "every (template, name pair, value assignment) of the bounded space: the expected AST is the template with placeholder leaves replaced by the values (computed on the model ADT, no second reader); READWithPreamble(AddPreamble(src, m)) for every preamble line order, and Read_str(src, m), must be identical to it; every case is non-trivial",
			Assumptions: []string{"names over letters, digits, '-' and '_'; values are data values that C06 shows readable (NUL excluded: C06 known finding)", "a source may start with its own ';; $...' comment lines: AddPreamble separates them from the preamble by a blank line"},
			Families:    []*vf.Family{fam, empty, big, seqFam},
		}
	})
}

// substStrings replaces @A/@B inside string leaves by the placeholder names.
func substStrings(t V, names map[string]V) V {
	switch t.K {
	case model.KStr:
		s := t.S
		for k, v := range names {
			s = strings.ReplaceAll(s, k, v.S[len("\x01name:"):])
		}
		return model.Str(s)
	case model.KList, model.KVec:
		out := make([]V, len(t.Elems))
		for i, e := range t.Elems {
			out[i] = substStrings(e, names)
		}
		return V{K: t.K, Elems: out}
	case model.KMap:
		ents := make([]model.MapEntry, len(t.Ents))
		for i, e := range t.Ents {
			ents[i] = model.MapEntry{K: e.K, V: substStrings(e.V, names)}
		}
		return V{K: model.KMap, Ents: ents}
	}
	return t
}

// valueClass names the feature of a value that matters for transport (for signatures).
func valueClass(v V) string {
	var has func(v V, f func(string) bool) bool
	has = func(v V, f func(string) bool) bool {
		switch v.K {
		case model.KStr:
			return f(v.S)
		case model.KList, model.KVec:
			for _, e := range v.Elems {
				if has(e, f) {
					return true
				}
			}
		case model.KMap:
			for _, e := range v.Ents {
				if has(e.V, f) {
					return true
				}
			}
		}
		return false
	}
	switch {
	case has(v, func(s string) bool {
		return strings.HasPrefix(s, `{"`) && strings.HasSuffix(s, "}") && strings.Contains(s, "\n")
	}):
		return "multi-line-raw-string"
	case has(v, func(s string) bool { return strings.Contains(s, "\r") }):
		return "string-with-CR"
	case has(v, func(s string) bool { return strings.Contains(s, "\n") }):
		return "string-with-LF"
	}
	return [...]string{"nil", "bool", "int", "string", "keyword", "symbol", "list", "vector", "map", "set", "fn", "opaque"}[v.K]
}
