package props

import (
	"fmt"
	"strings"
	"time"

	"verifharness/internal/enum"
	"verifharness/internal/lx"
	"verifharness/internal/model"
	"verifharness/internal/vf"
)

// c03Grammar: NT 0 = T (try form), NT 1 = S (statement), NT 2 = thrown value expression.
func c03Grammar(maxW int) *enum.Grammar { return c03GrammarX(maxW, false) }

// raw adds (rawpan!): a Go builtin registered as a bare types.Func (no binder around it) that panics.
func c03GrammarX(maxW int, raw bool) *enum.Grammar {
	const T, S, TV = 0, 1, 2
	q := func(v V) V { return form("quote", v) }
	tvals := []enum.Prod{
		leaf("1", model.Int(1)), leaf(`"s"`, model.Str("s")), leaf(":k", model.Kw("k")), leaf("nil", model.Nil),
		leaf("{:a 1}", model.MapOf(model.MapEntry{K: model.Key{Kw: true, S: "a"}, V: model.Int(1)})),
		leaf("'[1 (2)]", q(model.Vec(model.Int(1), model.List(model.Int(2))))),
		leaf("(sentinel)", form("sentinel")),
		leaf("'(t! 9)", q(form("t!", model.Int(9)))),
	}
	stmts := []enum.Prod{
		leaf("5", model.Int(5)), leaf("(t! 1)", form("t!", model.Int(1))), leaf("(t! 2)", form("t!", model.Int(2))),
		leaf("(g)", form("g")), leaf("(boom!)", form("boom!")), leaf("(boomw!)", form("boomw!")), leaf("(pan!)", form("pan!")), leaf("(pans!)", form("pans!")),
		leaf("(m)", form("m")), leaf("(mx)", form("mx")), leaf("e", sym("e")), leaf("x", sym("x")),
		leaf("'(t! 9)", q(form("t!", model.Int(9)))), leaf("(list 't! 9)", form("list", q(sym("t!")), model.Int(9))),
		{Name: "throw", Weight: 1, Kids: []int{TV}, Build: func(k []V) V { return form("throw", k[0]) }},
		{Name: "T", Weight: 0 + 1, Kids: []int{T}, Build: func(k []V) V { return k[0] }},
	}
	// a panic below a callback: apply of a bare Go function that panics (the binder around apply
	// recovers it and must keep the panicked error reachable)
	stmts = append(stmts, leaf("(apply rawpan! (list))", form("apply", sym("rawpan!"), form("list"))))
	if raw {
		stmts = append(stmts, leaf("(rawpan!)", form("rawpan!")))
	}
	var tries []enum.Prod
	for nb := 0; nb <= 2; nb++ {
		for nh := 0; nh <= 2; nh++ { // 0 = no catch clause
			for nf := -1; nf <= 2; nf++ { // -1 = no finally clause
				nb, nh, nf := nb, nh, nf
				n := nb + nh
				if nf > 0 {
					n += nf
				}
				kids := make([]int, n)
				for i := range kids {
					kids[i] = S
				}
				tries = append(tries, enum.Prod{
					Name: fmt.Sprintf("try-b%d-h%d-f%d", nb, nh, nf), Weight: 1, Kids: kids,
					Build: func(k []V) V {
						el := []V{sym("try")}
						el = append(el, k[:nb]...)
						if nh > 0 {
							c := []V{sym("catch"), sym("e")}
							c = append(c, k[nb:nb+nh]...)
							el = append(el, model.List(c...))
						}
						if nf >= 0 {
							f := []V{sym("finally")}
							f = append(f, k[nb+nh:]...)
							el = append(el, model.List(f...))
						}
						return model.List(el...)
					},
				})
			}
		}
	}
	return enum.New([][]enum.Prod{tries, stmts, tvals}, maxW)
}

// c03Wrap puts the try form under the fixed prelude: g throws from a called function,
// m is a macro expanding to a throw, x is an outer let variable.
func c03Wrap(t V) V {
	q := func(v V) V { return form("quote", v) }
	return form("do",
		form("def", sym("g"), form("fn", model.Vec(), form("throw", model.Str("g")))),
		form("defmacro", sym("m"), form("fn", model.Vec(), q(form("throw", model.Kw("m"))))),
		// mx throws a lisp value while it is being expanded
		form("defmacro", sym("mx"), form("fn", model.Vec(), form("throw", mp(kw("code"), model.Int(1))))),
		form("let", model.Vec(sym("x"), model.Int(7)), t))
}

func init() {
	vf.Register("C03", func() *vf.Check {
		var rg *evalRig
		wOf := func(t string) int {
			if t == "thorough" {
				return 6
			}
			return 5
		}
		var g *enum.Grammar
		var tier string
		gOf := func() *enum.Grammar {
			if g == nil {
				g = c03Grammar(wOf(tier))
			}
			return g
		}
		fam := &vf.Family{
			Name:     "try-nests",
			Bounds:   "all try forms of weight <=5 (quick) / <=6 (thorough): 0-2 body forms, optional (catch e 1-2 forms), optional (finally 0-2 forms), statements from 15 leaves (incl. a macro that throws while expanding and a Go builtin whose error wraps a lisp error) + (throw V) over 8 thrown objects + nested try; under a prelude defining a throwing function, a throwing macro and an outer let variable",
			Setup:    func(t string) { tier = t; rg = newEvalRig(false); rg.ntTraceOnly = true },
			N:        func(t string) int64 { tier = t; return gOf().Count(0, wOf(t)) },
			Describe: func(i int64) string { return c03Wrap(gOf().Unrank(0, i)).Lisp() },
			Run: func(i int64, r *vf.Rec) {
				rg.compareWithModel(c03Wrap(gOf().Unrank(0, i)), []string{"e", "x"}, r, true)
			},
		}
		var rgd *evalRig
		// an hour, fifty years, and the "never expires" idiom
		c03Deadlines := []struct {
			name string
			at   func() time.Time
		}{
			{"an hour away", func() time.Time { return time.Now().Add(time.Hour) }},
			{"fifty years away", func() time.Time { return time.Now().AddDate(50, 0, 0) }},
			{"in the year 9999", func() time.Time { return time.Date(9999, 12, 31, 23, 59, 59, 0, time.UTC) }},
		}
		famD := &vf.Family{
			Name:   "try-nests-under-deadline",
			Bounds: "the same try forms, evaluated under a caller context whose deadline is an hour away, fifty years away, and in the year 9999 (EVAL then splits the remaining time between body and handler+finally; nothing times out, so the outcome must be the one without a deadline)",
			Setup:  func(t string) { tier = t; rgd = newEvalRig(false); rgd.ntTraceOnly = true; rgd.farDeadline = true },
			N:      func(t string) int64 { tier = t; return gOf().Count(0, wOf(t)) * int64(len(c03Deadlines)) },
			Describe: func(i int64) string {
				n := int64(len(c03Deadlines))
				return c03Wrap(gOf().Unrank(0, i/n)).Lisp() + "   ; under a context whose deadline is " + c03Deadlines[i%n].name
			},
			Run: func(i int64, r *vf.Rec) {
				n := int64(len(c03Deadlines))
				rgd.deadlineAt = c03Deadlines[i%n].at()
				rgd.compareWithModel(c03Wrap(gOf().Unrank(0, i/n)), []string{"e", "x"}, r, true)
			},
		}
		// bare Go functions that panic (a types.Func with no binder around it), in the body or in the
		// handler of a try that has a finally clause, under an outer try that stops the panic: the
		// finally body still runs exactly once, after the handler's effects. (What a handler receives for
		// a bare panic, and a panic inside a finally body, are left open: no case looks at them.)
		var rgr *evalRig
		bodies := []string{"(throw 1)", "(boom!)", "(rawpan!)", "(do (t! :b) (rawpan!))", "(g)", "5"}
		handlers := []string{"(rawpan!)", "(do (t! :h) (rawpan!))", "(gp)", "(apply rawpan! (list))", ":h", "(throw 2)"}
		tails := []string{"(finally (t! :fin))", "(finally (t! :fin) 9)", ""}
		rawProg := func(i int64) string {
			bd, hd, tl := bodies[i%int64(len(bodies))], handlers[(i/int64(len(bodies)))%int64(len(handlers))], tails[i/int64(len(bodies)*len(handlers))]
			return "(do (def g (fn [] (throw \"g\"))) (def gp (fn [] (t! :gp) (rawpan!))) (try (list :in (try " + bd + " (catch e " + hd + ") " + tl + ") (t! :after)) (catch z :outer)))"
		}
		famR := &vf.Family{
			Name:     "bare-panics-in-body-and-handler",
			Bounds:   fmt.Sprintf("%d bodies x %d handlers x %d finally clauses around a Go function registered as a bare types.Func that panics with a Go error (directly, after an effect, inside a called function, through apply), each under an outer try whose handler returns a constant", len(bodies), len(handlers), len(tails)),
			Setup:    func(t string) { tier = t; rgr = newEvalRig(false); rgr.ntTraceOnly = true },
			N:        func(t string) int64 { return int64(len(bodies) * len(handlers) * len(tails)) },
			Describe: func(i int64) string { return rawProg(i) },
			Run: func(i int64, r *vf.Rec) {
				rgr.compareWithModel(model.FromImpl(lx.MustRead(rawProg(i))), []string{"e", "x"}, r, true)
			},
		}
		// a throw inside the update function of a swap! whose atom changed meanwhile (the function itself
		// resets it): the thrown value is delivered, once, from the application that threw
		type fixedCase struct{ prog, want, trace string }
		atomCases := []fixedCase{
			{`(do (def a (atom 0)) (list (try (swap! a (fn [x] (reset! a (+ x 10)) (t! x) (throw {:seen x}))) (catch e e)) (deref a)))`, `({:"seen" 0} 10)`, `[0]`},
			{`(do (def a (atom 0)) (try (swap! a (fn [x] (reset! a 5) (try (throw 1) (catch e (t! :h)) (finally (t! :f))) (throw :out))) (catch e (list e (deref a)))))`, `(:"out" 5)`, `[:"h" :"f"]`},
			{`(do (def a (atom 0)) (def b (atom 0)) (list (try (swap! a (fn [x] (swap! b inc) (reset! a 7) (throw (list x (deref b))))) (catch e e)) (deref a) (deref b)))`, `((0 1) 7 1)`, `[]`},
			{`(do (def a (atom 1)) (list (try (swap! a (fn [x] (t! x) (throw x))) (catch e e)) (swap! a inc)))`, `(1 2)`, `[1]`},
		}
		var rga *evalRig
		famA := &vf.Family{
			Name: "throws-inside-swap", InProc: true,
			Bounds:   fmt.Sprintf("%d fixed programs: an update function that changes its atom (or another one) and then throws; expected value and effects written down by hand", len(atomCases)),
			Setup:    func(t string) { tier = t; rga = newEvalRig(true); rga.ntTraceOnly = true },
			N:        func(string) int64 { return int64(len(atomCases)) },
			Describe: func(i int64) string { return atomCases[i].prog },
			Run: func(i int64, r *vf.Rec) {
				c := atomCases[i]
				out, _ := rga.runImpl(lx.MustRead(c.prog), 3000)
				r.Exec(1)
				r.NT()
				got := "panic"
				switch {
				case out.Panic != nil:
					got = "panic " + out.Panic.String()
				case out.IsErr:
					got = "error " + out.ErrMsg
				default:
					got = out.Val.String()
				}
				if got != c.want || traceStr(out.Trace) != c.trace {
					r.Violation("a throw inside a swap! update function is not delivered once and unchanged", fmt.Sprintf("%s\nexpected %s with effects %s, got %s with effects %s", c.prog, c.want, c.trace, got, traceStr(out.Trace)))
				}
			},
		}
		// catch clauses whose binder is no plain symbol: whatever the form then yields, finally runs once,
		// after the body (and after the handler, should it run)
		binders := []string{"e", "[e]", "&", "5", `"s"`, "(e)", "nil", ":k", "{}", "[& e]", "(quote e)"}
		binderBodies := []string{"(do (t! 1) (throw 3))", "(t! 1)", "(do (t! 1) zz)", "(do (t! 1) (try (throw 4) (catch BINDER (t! 5)) (finally (t! 6))))"}
		binderWraps := []string{"%s", "(try %s (catch e2 (t! 7)))", "(list (try %s (catch e2 7)))", "((fn [] %s (t! 8)))"}
		binderProg := func(i int64) string {
			b := binders[i%int64(len(binders))]
			i /= int64(len(binders))
			body := strings.ReplaceAll(binderBodies[i%int64(len(binderBodies))], "BINDER", b)
			i /= int64(len(binderBodies))
			return fmt.Sprintf(binderWraps[i], fmt.Sprintf("(try %s (catch %s (t! 2)) (finally (t! 9)))", body, b))
		}
		var rgb *evalRig
		famB := &vf.Family{
			Name: "catch-binders-that-are-no-symbol", InProc: true,
			Bounds:   fmt.Sprintf("%d binders (a symbol, vectors, &, a number, a string, a list, nil, a keyword, a map) x %d bodies (throwing, returning, failing lookup, a nested try of the same shape) x %d surroundings: finally logs exactly once, after the body's and the handler's effects", len(binders), len(binderBodies), len(binderWraps)),
			Setup:    func(t string) { tier = t; rgb = newEvalRig(true); rgb.ntTraceOnly = true },
			N:        func(string) int64 { return int64(len(binders) * len(binderBodies) * len(binderWraps)) },
			Describe: binderProg,
			Run: func(i int64, r *vf.Rec) {
				prog := binderProg(i)
				out, _ := rgb.runImpl(lx.MustRead(prog), 3000)
				r.Exec(1)
				r.NT()
				if out.Panic != nil {
					r.Violation("a catch clause with a malformed binder makes EVAL panic", prog+"\n"+out.Panic.String())
					return
				}
				tr := traceStr(out.Trace)
				n9, last9, i1, i2 := 0, -1, -1, -1
				for k, v := range out.Trace {
					switch v.String() {
					case "9":
						n9++
						last9 = k
					case "1":
						i1 = k
					case "2":
						i2 = k
					}
				}
				if n9 != 1 || i1 < 0 || last9 < i1 || last9 < i2 {
					r.Violation("finally of a try whose catch binder is no plain symbol does not run exactly once after body and handler", fmt.Sprintf("%s\neffects %s (1 = body, 2 = handler, 9 = finally)", prog, tr))
				}
			},
		}
		// try forms that carry no source position: the whole program handed over as an AST built from Go, two
		// different try forms side by side (whatever EVAL remembers about "the try form at this position"
		// must not leak from one form into the other, nor from one evaluation into the next of the process)
		var rgn *evalRig
		wN := func() int {
			if tier == "thorough" {
				return 4
			}
			return 3
		}
		famN := &vf.Family{
			Name:   "try-nests-without-source-positions",
			Bounds: "all ordered pairs of try forms of weight <=3 (thorough: the first of weight <=4) of the same grammar, as (list T1 T2) under the prelude, delivered as an AST built from Go (no node has a source position); all pairs of a worker run in one process, one after the other",
			Setup:  func(t string) { tier = t; rgn = newEvalRig(false); rgn.ntTraceOnly = true },
			N:      func(t string) int64 { tier = t; return gOf().Count(0, wN()) * gOf().Count(0, 3) },
			Describe: func(i int64) string {
				n := gOf().Count(0, 3)
				return c03Wrap(form("list", gOf().Unrank(0, i/n), gOf().Unrank(0, i%n))).Lisp()
			},
			Run: func(i int64, r *vf.Rec) {
				n := gOf().Count(0, 3)
				rgn.compareWithModel(c03Wrap(form("list", gOf().Unrank(0, i/n), gOf().Unrank(0, i%n))), []string{"e", "x"}, r, false)
			},
		}
		// try forms built while the program runs: nested inside a macro's template, assembled with list / cons
		// and handed to eval; several different ones in one program
		builtCases := []fixedCase{
			{"(do (defmacro g1 (fn [x] `(do (try ~x (catch e1 [:first e1]) (finally (t! :fin1)))))) (defmacro g2 (fn [x] `(do (try ~x (catch e2 {:second e2}) (finally (t! :fin2)))))) (list (g1 (throw {:code 1})) (g2 (throw '(a b))) (g2 (+ 1 2)) (g1 7)))", `([:"first" {:"code" 1}] {:"second" ('"a" '"b")} 3 7)`, `[:"fin1" :"fin2" :"fin2" :"fin1"]`},
			{"(do (def mk (fn [tag v] (list 'try (list 'throw v) (list 'catch 'e (list 'list tag 'e)) (list 'finally (list 't! tag))))) (list (eval (mk :a 1)) (eval (mk :b 2)) (eval (mk :a 3))))", `((:"a" 1) (:"b" 2) (:"a" 3))`, `[:"a" :"b" :"a"]`},
			{"(do (defmacro w (fn [tag body] `(let [r (try ~body (catch e (do (t! ~tag) e)))] r))) (list (w :p (throw 1)) (w :q (throw 2)) (w :r 3)))", `(1 2 3)`, `[:"p" :"q"]`},
			{"(do (def a (cons 'try (cons '(throw :x) (list '(catch e (t! :h1) e))))) (def b (cons 'try (cons '(throw :y) (list '(catch e (t! :h2) (list e)) '(finally (t! :f2)))))) (list (eval a) (eval b) (eval a)))", `(:"x" (:"y") :"x")`, `[:"h1" :"h2" :"f2" :"h1"]`},
			{"(do (defmacro outer (fn [x] `(list (try ~x (catch e (t! :o1) e)) (try (throw :inner) (catch e (t! :o2) e) (finally (t! :of)))))) (outer (throw :arg)))", `(:"arg" :"inner")`, `[:"o1" :"o2" :"of"]`},
		}
		var rgbt *evalRig
		famBt := &vf.Family{
			Name: "try-forms-built-at-run-time", InProc: true,
			Bounds:   fmt.Sprintf("%d fixed programs: several different try forms nested inside macro templates, or assembled with list / cons and handed to eval, in one program; expected value and effects written down by hand", len(builtCases)),
			Setup:    func(t string) { tier = t; rgbt = newEvalRig(true); rgbt.ntTraceOnly = true },
			N:        func(string) int64 { return int64(len(builtCases)) },
			Describe: func(i int64) string { return builtCases[i].prog },
			Run: func(i int64, r *vf.Rec) {
				c := builtCases[i]
				out, _ := rgbt.runImpl(lx.MustRead(c.prog), 3000)
				r.Exec(1)
				r.NT()
				got := "panic"
				switch {
				case out.Panic != nil:
					got = "panic " + out.Panic.String()
				case out.IsErr:
					got = "error " + out.ErrMsg
				default:
					got = out.Val.String()
				}
				if got != c.want || traceStr(out.Trace) != c.trace {
					r.Violation("a try form built at run time does not deliver to its own handler / run its own finally once", fmt.Sprintf("%s\nexpected %s with effects %s, got %s with effects %s", c.prog, c.want, c.trace, got, traceStr(out.Trace)))
				}
			},
		}
		return &vf.Check{
			ID: "C03", Level: "model_checking",
			Rule:        "every try/catch/finally nest of the bounded grammar runs on the real EVAL and on the definitional interpreter (handler value returned as a value, catch variable scoped to the handler, finally exactly once after body and handler, outcome unchanged by finally); result, thrown payload via ErrorValue, errors.Is for Go errors, and the ordered effect trace must agree; non-trivial = has effects",
			Assumptions: []string{"a finally body that itself fails is swallowed (README: 'for side effects only')", "payload of unbound-symbol / arity / domain errors is opaque and compared by kind only"},
			Families:    []*vf.Family{fam, famD, famR, famA, famB, famN, famBt},
		}
	})
}
