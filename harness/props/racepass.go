package props

import (
	"context"
	"errors"
	"fmt"
	"os"
	"runtime"
	"sync"
	"time"

	"github.com/jig/lisp/env"
	"github.com/jig/lisp/lib/call"
	"github.com/jig/lisp/lib/concurrent"
	"github.com/jig/lisp/types"

	"verifharness/internal/lx"
)

// raceRun runs the bodies concurrently (free-running, real goroutines) after a start barrier.
func raceRun(bodies []func()) {
	var wg sync.WaitGroup
	start := make(chan struct{})
	for _, b := range bodies {
		wg.Add(1)
		b := b
		go func() {
			defer wg.Done()
			<-start
			b()
		}()
	}
	close(start)
	done := make(chan struct{})
	go func() { wg.Wait(); close(done) }()
	select {
	case <-done:
	case <-time.After(120 * time.Second):
		// the free-running bodies (each a few milliseconds of work) did not finish: real goroutines
		// are deadlocked. Reported once; the pass stops here (every further scenario would wait too).
		fmt.Fprintln(os.Stderr, "RACEPASS-VIOLATION free-running scenario bodies block forever (deadlock among real goroutines)")
		fmt.Fprintln(os.Stderr, "RACEPASS-DONE")
		os.Exit(0)
	}
}

func raceIters(tier string) int {
	if tier == "thorough" {
		return 300
	}
	return 25
}

// atoms: every pair and triple of atom operations
func c09RacePass(tier string) {
	base := lx.NewFullEnv()
	lx.Eval(nil, lx.MustRead(`(def failing (fn [x] (throw "no")))`), base)
	call.CallOverrideFN(base, "t!", func(c types.MalType) (types.MalType, error) { return c, nil })
	c09InstallCallf(base)
	total := 0
	n := len(atomOps)
	var plans [][]int
	for i := 0; i < n; i++ {
		for j := i; j < n; j++ {
			plans = append(plans, []int{i, j})
			if tier == "thorough" {
				for k := j; k < n; k++ {
					plans = append(plans, []int{i, j, k})
				}
			}
		}
	}
	for _, plan := range plans {
		for it := 0; it < raceIters(tier); it++ {
			scope := env.NewSubordinateEnv(base)
			scope.Set(types.Symbol{Val: "a"}, &concurrent.Atom{Val: 1})
			scope.Set(types.Symbol{Val: "b"}, &concurrent.Atom{Val: 1})
			scope.Set(types.Symbol{Val: "k"}, &concurrent.Atom{Val: types.List{Val: []types.MalType{0}}})
			scope.Set(types.Symbol{Val: "w"}, &concurrent.Atom{Val: types.Vector{Val: []types.MalType{1, 2}}})
			var bodies []func()
			cctx, ccancel := context.WithCancel(context.Background())
			for ti, o := range plan {
				if atomOps[o].harness != nil {
					bodies = append(bodies, func() { ccancel() })
					continue
				}
				ast := lx.MustRead(atomOps[o].text(10 * (ti + 1)))
				if atomOps[o].mayFail {
					bodies = append(bodies, func() { lx.Eval(cctx, ast, scope) })
					continue
				}
				bodies = append(bodies, func() { lx.Eval(context.Background(), ast, scope) })
			}
			raceRun(bodies)
			ccancel()
			total++
		}
	}
	fmt.Fprintf(os.Stderr, "RACEPASS-ITERATIONS %d\n", total)
}

// futures: every body x pairs of caller operations
func c10RacePass(tier string) {
	base := lx.NewFullEnv()
	call.CallOverrideFN(base, "t!", func(c types.MalType) (types.MalType, error) { return c, nil })
	call.CallOverrideFN(base, "wait-cancel!", func(ctx context.Context) (types.MalType, error) {
		select {
		case <-ctx.Done():
		case <-time.After(5 * time.Millisecond):
		}
		return nil, errors.New("body saw its context end")
	})
	call.CallOverrideFN(base, "busy!", func() (types.MalType, error) { runtime.Gosched(); runtime.Gosched(); return 9, nil })
	call.CallOverrideFN(base, "probe!", func(ctx context.Context) (types.MalType, error) { return nil, nil })
	total := 0
	for b := range futBodies {
		for o1 := range futOps {
			for o2 := range futOps {
				for o3 := range futOps {
					if tier != "thorough" && o3 != 0 {
						continue
					}
					for it := 0; it < raceIters(tier); it++ {
						scope := env.NewSubordinateEnv(base)
						if _, err, p := lx.Eval(context.Background(), lx.MustRead("(def f (future-call "+futBodies[b].text+"))"), scope); err != nil || p != nil {
							panic("race pass: future creation")
						}
						var bodies []func()
						callerCtx, callerCancel := context.WithCancel(context.Background())
						for _, o := range []int{o1, o2, o3} {
							if futOps[o].name == "end-caller-context" {
								bodies = append(bodies, func() { callerCancel() })
								continue
							}
							ast := lx.MustRead(futOps[o].text)
							if futOps[o].name == "deref-cancellable" {
								bodies = append(bodies, func() {
									ctx, cancel := context.WithTimeout(callerCtx, 20*time.Millisecond)
									defer cancel()
									lx.Eval(ctx, ast, scope)
								})
								continue
							}
							if futOps[o].name == "deref" && futBodies[b].name == "waits-for-cancel" {
								// a deref of a future nobody may cancel would block: give it a deadline
								bodies = append(bodies, func() {
									ctx, cancel := context.WithTimeout(context.Background(), 20*time.Millisecond)
									defer cancel()
									lx.Eval(ctx, ast, scope)
								})
								continue
							}
							bodies = append(bodies, func() { lx.Eval(context.Background(), ast, scope) })
						}
						raceRun(bodies)
						callerCancel()
						total++
					}
				}
			}
		}
	}
	fmt.Fprintf(os.Stderr, "RACEPASS-ITERATIONS %d\n", total)
}

// shared environment: every pair (thorough: light triples too) of programs
func c11RacePass(tier string) {
	base := lx.NewFullEnv()
	total := 0
	n := len(c11Progs)
	var plans [][]int
	for i := 0; i < n; i++ {
		for j := i; j < n; j++ {
			plans = append(plans, []int{i, j})
			if tier == "thorough" {
				for k := j; k < n; k++ {
					plans = append(plans, []int{i, j, k})
				}
			}
		}
	}
	for _, plan := range plans {
		for it := 0; it < raceIters(tier); it++ {
			sh := env.NewSubordinateEnv(base)
			for _, s := range []string{"(def shared [1 2 3])", "(def sharedmap {:a 1})", "(defmacro qm (fn [x] (list (quote quote) x)))"} {
				lx.Eval(context.Background(), lx.MustRead(s), sh)
			}
			var bodies []func()
			for ti, pi := range plan {
				t := c11Progs[pi].text(ti + 1)
				ast := lx.MustRead(replaceOther(t, (ti+1)%len(plan)+1))
				bodies = append(bodies, func() { lx.Eval(context.Background(), ast, sh) })
			}
			raceRun(bodies)
			total++
		}
	}
	// a crowd: several hundred evaluations in flight at once on one shared environment, each a
	// macro-heavy program with its own local names; every one must return what it returns alone
	// (process-wide state shared by all evaluations only shows with many of them in flight)
	crowdProgs := []string{
		"(let [n %d] (cond false 1 (or nil false) 2 :else (and 1 (-> n (+ 1) (* 2)))))",
		"(do (defmacro cd%d (fn [k] (if (< k 1) 0 (list 'cd%d (- k 1))))) (let [z %d] (list z (cd%d 6) (->> z (+ 1) (list 2)))))",
		"(let [v%d [1 2 3]] (or (and nil 1) (cond (empty? v%d) 0 :else (count (map (fn [x] (-> x (+ %d))) v%d)))))",
	}
	crowd := 384
	if tier == "thorough" {
		crowd = 1024
	}
	for pi, pt := range crowdProgs {
		sh := env.NewSubordinateEnv(base)
		mk := func(g int) string {
			switch pi {
			case 0:
				return fmt.Sprintf(pt, g)
			case 1:
				return fmt.Sprintf(pt, g, g, g, g)
			}
			return fmt.Sprintf(pt, g, g, g, g)
		}
		want := make([]string, crowd)
		for g := 0; g < crowd; g++ {
			r, err, p := lx.Eval(context.Background(), lx.MustRead(mk(g)), env.NewSubordinateEnv(base))
			want[g] = fmt.Sprint(r, err, p)
		}
		var bad sync.Map
		var bodies []func()
		for g := 0; g < crowd; g++ {
			g := g
			ast := lx.MustRead(mk(g))
			bodies = append(bodies, func() {
				for k := 0; k < 4; k++ {
					r, err, p := lx.Eval(context.Background(), ast, sh)
					if got := fmt.Sprint(r, err, p); got != want[g] {
						bad.Store(g, got+" instead of "+want[g])
					}
				}
			})
		}
		raceRun(bodies)
		total++
		bad.Range(func(k, v any) bool {
			fmt.Fprintf(os.Stderr, "RACEPASS-VIOLATION one of %d evaluations running at once returns something else than alone\n", crowd)
			fmt.Fprintf(os.Stderr, "  (evaluation %v: %v)\n", k, v)
			return false
		})
	}
	// a completed future (holding a value, and one that threw) bound in the shared environment and
	// dereferenced by many evaluations at the same moment: each gets what it gets alone
	{
		sh := env.NewSubordinateEnv(base)
		for _, t := range []string{"(def sharedf (future (list 4 2)))", "(def sharedt (future (throw {:code 42})))", "(deref sharedf)", "(try (deref sharedt) (catch e e))"} {
			lx.Eval(context.Background(), lx.MustRead(t), sh)
		}
		progs := []string{"(do (def mine-%d (deref sharedf)) mine-%d)", "(try (deref sharedt) (catch e%d (list e%d)))"}
		var bad sync.Map
		var bodies []func()
		for g := 0; g < 8; g++ {
			pt := progs[g%2]
			ast := lx.MustRead(fmt.Sprintf(pt, g, g))
			r0, err0, p0 := lx.Eval(context.Background(), ast, sh)
			want := fmt.Sprint(r0, err0, p0)
			bodies = append(bodies, func() {
				for k := 0; k < 3000; k++ {
					r, err, p := lx.Eval(context.Background(), ast, sh)
					if got := fmt.Sprint(r, err, p); got != want {
						bad.Store(want, got)
						return
					}
				}
			})
		}
		raceRun(bodies)
		total++
		bad.Range(func(k, v any) bool {
			fmt.Fprintf(os.Stderr, "RACEPASS-VIOLATION a completed future dereferenced by several evaluations at once gives one of them something else than alone\n")
			fmt.Fprintf(os.Stderr, "  (%v instead of %v)\n", v, k)
			return false
		})
	}
	fmt.Fprintf(os.Stderr, "RACEPASS-ITERATIONS %d\n", total)
}

// bound Go functions that take the evaluation context, called by several evaluations at the same
// time, each under its own context: every call must be entered with its own evaluation's context
type c20rpKey struct{}

func c20RacePass(tier string) {
	ns := env.NewEnv()
	call.CallOverrideFN(ns, "cf0", func(ctx context.Context) (types.MalType, error) { return ctx.Value(c20rpKey{}), nil })
	call.CallOverrideFN(ns, "cf1", func(ctx context.Context, a types.MalType) (types.MalType, error) { return ctx.Value(c20rpKey{}), nil })
	call.CallOverrideFN(ns, "cfv", func(ctx context.Context, rest ...types.MalType) (types.MalType, error) {
		return ctx.Value(c20rpKey{}), nil
	})
	call.CallOverrideFN(ns, "cfe", func(ctx context.Context, a int) error { return nil })
	total := 0
	var mismatch sync.Map
	for _, text := range []string{"(cf0)", "(cf1 5)", "(cfv 1 2)", "(cfv)", "(do (cfe 1) (cf0))"} {
		ast := lx.MustRead(text)
		for it := 0; it < 8*raceIters(tier); it++ {
			var bodies []func()
			for g := 0; g < 4; g++ {
				g := g
				ctx := context.WithValue(context.Background(), c20rpKey{}, g)
				bodies = append(bodies, func() {
					for k := 0; k < 50; k++ {
						res, err, p := lx.Eval(ctx, ast, ns)
						if err != nil || p != nil || res != g {
							mismatch.Store(text, fmt.Sprint(res, err, p))
						}
					}
				})
			}
			raceRun(bodies)
			total++
		}
	}
	mismatch.Range(func(k, v any) bool {
		fmt.Fprintf(os.Stderr, "RACEPASS-VIOLATION a bound function was entered with another evaluation's context (or failed) under concurrent calls\n")
		return false
	})
	fmt.Fprintf(os.Stderr, "RACEPASS-ITERATIONS %d\n", total)
}

// values shared by evaluations running at once: several futures extend the same vectors, lists and
// maps at the same instant; each must get exactly its own extension of the unchanged parent
func c02RacePass(tier string) {
	base := lx.NewFullEnv()
	total := 0
	var bad sync.Map
	rounds := 12
	if tier == "thorough" {
		rounds = 120
	}
	for round := 0; round < rounds; round++ {
		sh := env.NewSubordinateEnv(base)
		// parents made by the builtins themselves (conj-built, assoc-built, concat-built), 1500 of each
		if _, err, p := lx.Eval(context.Background(), lx.MustRead(`(do
			(def vs (map (fn [i] (conj [:base i] :z)) (range 0 1500)))
			(def ws (map (fn [i] (assoc [:base i 0 0 0] 2 :y)) (range 0 1500)))
			(def ms (map (fn [i] (assoc {:base i} :k 1)) (range 0 1500))))`), sh); err != nil || p != nil {
			panic(fmt.Sprint("c02 race pass setup: ", err, p))
		}
		var bodies []func()
		for g := 0; g < 8; g++ {
			g := g
			ast := lx.MustRead(fmt.Sprintf(`(list (map (fn [v] (conj v %d)) vs) (map (fn [v] (conj v %d %d)) ws) (map (fn [m] (assoc m :g %d)) ms))`, g, g, g, g))
			bodies = append(bodies, func() {
				res, err, p := lx.Eval(context.Background(), ast, sh)
				if err != nil || p != nil {
					bad.Store("error", fmt.Sprint(err, p))
					return
				}
				parts := res.(types.List).Val
				for i, r := range parts[0].(types.List).Val {
					v := r.(types.Vector).Val
					if len(v) != 4 || v[0] != types.NewKeyword("base") || v[1] != i || v[2] != types.NewKeyword("z") || v[3] != g {
						bad.Store("conj", fmt.Sprintf("evaluation %d got %v for (conj [:base %d :z] %d)", g, v, i, g))
					}
				}
				for i, r := range parts[1].(types.List).Val {
					v := r.(types.Vector).Val
					if len(v) != 7 || v[1] != i || v[2] != types.NewKeyword("y") || v[5] != g || v[6] != g {
						bad.Store("conj2", fmt.Sprintf("evaluation %d got %v for (conj [:base %d :y 0 0] %d %d)", g, v, i, g, g))
					}
				}
				for i, r := range parts[2].(types.List).Val {
					m := r.(types.HashMap).Val
					if len(m) != 3 || m[types.NewKeyword("g")] != g || m[types.NewKeyword("base")] != i {
						bad.Store("assoc", fmt.Sprintf("evaluation %d got %v for (assoc {:base %d :k 1} :g %d)", g, m, i, g))
					}
				}
			})
		}
		raceRun(bodies)
		total++
	}
	bad.Range(func(k, v any) bool {
		fmt.Fprintf(os.Stderr, "RACEPASS-VIOLATION a value extended by several evaluations at once came out wrong for one of them (%v)\n  %v\n", k, v)
		return true
	})
	fmt.Fprintf(os.Stderr, "RACEPASS-ITERATIONS %d\n", total)
}
