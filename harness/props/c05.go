package props

import (
	"context"
	"fmt"
	"regexp"
	"strconv"
	"strings"
	"time"

	lisp "github.com/jig/lisp"
	"github.com/jig/lisp/reader"
	"github.com/jig/lisp/types"

	"verifharness/internal/lx"
	"verifharness/internal/vf"
)

// ---- shared text enumeration helpers ---------------------------------------

// seqSpace enumerates all sequences of length 0..maxLen over an alphabet of k
// symbols, shortest first; index -> digits.
type seqSpace struct {
	k      int
	maxLen int
}

func (s seqSpace) size() int64 {
	var n, p int64 = 0, 1
	for l := 0; l <= s.maxLen; l++ {
		n += p
		p *= int64(s.k)
	}
	return n
}

func (s seqSpace) unrank(i int64) []int {
	var p int64 = 1
	l := 0
	for ; l <= s.maxLen; l++ {
		if i < p {
			break
		}
		i -= p
		p *= int64(s.k)
	}
	d := make([]int, l)
	for j := l - 1; j >= 0; j-- {
		d[j] = int(i % int64(s.k))
		i /= int64(s.k)
	}
	return d
}

var c05Tokens = []string{
	"(", ")", "[", "]", "{", "}", "#{", "«", "»", "'", "`", "~", "~@", "^", "@",
	"$x", "$", "a", ":k", "1", "-", `"s"`, "¬r¬", ";c\n", "nil", "1.5", "#", "&", `"`, "¬", "atom", `""`,
}

var c05Bytes = []string{
	`"`, `\`, "n", "¬", "\xc2", "\xac", ";", "\n", "\r", "(", ")", "$", ":", "-", "0", "x", ".",
	"\x00", "\xff", "ʞ", "\ufeff", "a", " ", "#", "{", "~", "@", ";; $MODULE m", ";; $x 1",
}

var c05PreLines = []string{
	";; $x 1", ";; $x", ";;$x 1", "", ";; c", "$x", "(", ";; $x (", `;; $x "a`, ";; $x ¬", ";; $x $x",
	";; $x ;; $y 2", ";; $1 )", ";; $x-y_1 «a»", ";; $ 1", ";; $x  2 3", ";; $x '", ";; $MODULE m",
}
var c05PreBodies = []string{"", "$x", "(a $x)", `"s"`, "$x-y_1 $1"}

var digitsRE = regexp.MustCompile(`[0-9]+`)

func panicSig(p *lx.Panic) string {
	msg := fmt.Sprint(p.Val)
	msg = digitsRE.ReplaceAllString(msg, "N")
	if i := strings.Index(msg, "interface conversion:"); i >= 0 {
		msg = msg[:i] + "interface conversion"
	}
	if i := strings.Index(msg, "reflect:"); i >= 0 {
		msg = msg[:i] + "reflect panic"
	}
	if len(msg) > 100 {
		msg = msg[:100]
	}
	return "panic@" + p.Site + ": " + msg
}

type c05state struct {
	env types.EnvType
	rs  types.MalType
}

func c05routes(st *c05state, src string, r *vf.Rec) {
	ph := &types.HashMap{Val: map[string]types.MalType{"$x": 7}}
	routes := []struct {
		name string
		f    func() (types.MalType, error)
	}{
		{"READ(nil,nil)", func() (types.MalType, error) { return lisp.READ(src, nil, nil) }},
		{"READ(cursor,env)", func() (types.MalType, error) { return lisp.READ(src, types.NewCursorFile("m"), st.env) }},
		{"READWithPreamble(nil,nil)", func() (types.MalType, error) { return lisp.READWithPreamble(src, nil, nil) }},
		{"READWithPreamble(cursor,env)", func() (types.MalType, error) {
			return lisp.READWithPreamble(src, types.NewCursorFile("m"), st.env)
		}},
		{"Read_str(placeholders)", func() (types.MalType, error) { return reader.Read_str(src, nil, ph) }},
		// placeholder values built from Go (no source position anywhere in them)
		{"Read_str(placeholder = Go-built list)", func() (types.MalType, error) {
			return reader.Read_str(src, nil, &types.HashMap{Val: map[string]types.MalType{"$x": types.List{Val: []types.MalType{types.Symbol{Val: "s"}, 1}}}})
		}},
		{"Read_str(placeholder = Go-built vector, cursor)", func() (types.MalType, error) {
			return reader.Read_str(src, types.NewCursorFile("m"), &types.HashMap{Val: map[string]types.MalType{"$x": types.Vector{Val: []types.MalType{1}}}}, st.env)
		}},
		{"Read_str(placeholder = Go-built symbol)", func() (types.MalType, error) {
			return reader.Read_str(src, nil, &types.HashMap{Val: map[string]types.MalType{"$x": types.Symbol{Val: "s"}}})
		}},
		{"read-string", func() (types.MalType, error) {
			return lisp.EVAL(context.Background(), types.List{Val: []types.MalType{st.rs, src}}, st.env)
		}},
	}
	anyOK := false
	for _, rt := range routes {
		var res types.MalType
		var err error
		p := lx.Guard(func() { res, err = rt.f() })
		r.Exec(1)
		if p != nil {
			r.Violation(panicSig(p), rt.name+": "+p.String()+"\n"+trimStack(p.Stack))
			r.Outcome("panic")
			continue
		}
		if err != nil {
			r.Outcome("error")
			continue
		}
		anyOK = true
		r.Outcome("ast")
		var out string
		p = lx.Guard(func() { out = lisp.PRINT(res) })
		if p != nil {
			r.Violation("PRINT "+panicSig(p), rt.name+": PRINT panicked: "+p.String()+"\n"+trimStack(p.Stack))
		}
		_ = out
	}
	if anyOK {
		r.NT()
	}
}

func trimStack(s string) string {
	lines := strings.Split(s, "\n")
	var keep []string
	for _, l := range lines {
		if strings.Contains(l, "github.com/jig/") || strings.HasPrefix(l, "panic(") {
			keep = append(keep, strings.TrimSpace(l))
		}
		if len(keep) > 14 {
			break
		}
	}
	return strings.Join(keep, "\n")
}

func init() {
	vf.Register("C05", func() *vf.Check {
		st := &c05state{}
		setup := func(string) {
			st.env = lx.NewFullEnv()
			st.rs = types.Symbol{Val: "read-string"}
		}
		tokLen := func(tier string) int {
			if tier == "thorough" {
				return 5
			}
			return 4
		}
		byteLen := func(tier string) int {
			if tier == "thorough" {
				return 5
			}
			return 4
		}
		tokText := func(tier string, i int64) string {
			d := seqSpace{len(c05Tokens), tokLen(tier)}.unrank(i)
			parts := make([]string, len(d))
			for j, x := range d {
				parts[j] = c05Tokens[x]
			}
			return strings.Join(parts, " ")
		}
		byteText := func(tier string, i int64) string {
			d := seqSpace{len(c05Bytes), byteLen(tier)}.unrank(i)
			var sb strings.Builder
			for _, x := range d {
				sb.WriteString(c05Bytes[x])
			}
			return sb.String()
		}
		preText := func(i int64) string {
			nb := int64(len(c05PreBodies))
			body := c05PreBodies[i%nb]
			d := seqSpace{len(c05PreLines), 3}.unrank(i / nb)
			var sb strings.Builder
			for _, x := range d {
				sb.WriteString(c05PreLines[x])
				sb.WriteString("\n")
			}
			sb.WriteString(body)
			// a text may also end right after its last line, without a final newline
			if body == "" && len(d) > 0 && d[len(d)-1]%2 == 0 {
				return strings.TrimSuffix(sb.String(), "\n")
			}
			return sb.String()
		}
		// long preambles in which every line mentions the placeholders of the lines before it: reading
		// and printing must stay proportional to the text (a value that could refer to earlier values
		// would double in size with every line)
		chainKinds := []string{"($P%d $P%d)", "[$P%d {:k $P%d}]", "(list $P%d $P%d $P0)", "$P%d ;; $P%d"}
		chainText := func(i int64) string {
			kind := chainKinds[i%int64(len(chainKinds))]
			depth := []int{8, 24, 48, 96}[(i/int64(len(chainKinds)))%4]
			crlf := (i/int64(len(chainKinds))/4)%2 == 1
			nl := "\n"
			if crlf {
				nl = "\r\n"
			}
			var sb strings.Builder
			sb.WriteString(";; $P0 (1 2)" + nl)
			for k := 1; k < depth; k++ {
				sb.WriteString(fmt.Sprintf(";; $P%d ", k) + fmt.Sprintf(kind, k-1, k-1) + nl)
			}
			sb.WriteString(nl + fmt.Sprintf("(list $P%d $P%d)", depth-1, depth-1) + nl)
			return sb.String()
		}
		var tier string
		mk := func(name, bounds string, n func(string) int64, text func(int64) string) *vf.Family {
			return &vf.Family{
				Name: name, Bounds: bounds, Timeout: 5 * time.Second,
				Setup:    func(t string) { tier = t; setup(t) },
				N:        func(t string) int64 { tier = t; return n(t) },
				Describe: func(i int64) string { return strconv.Quote(text(i)) },
				Run:      func(i int64, r *vf.Rec) { c05routes(st, text(i), r) },
			}
		}
		return &vf.Check{
			ID: "C05", Level: "model_checking",
			Rule:        "every string of the bounded text spaces (token sequences, raw byte sequences, preamble line sequences) is fed to 9 reader entry points (3 of them with placeholder values built from Go, which carry no source position) under recover and a per-case watchdog; non-trivial = at least one entry point returned an AST (which is then PRINTed)",
			Assumptions: []string{"texts above the length bound or outside the alphabets are not covered", "a hang is a case exceeding the 5 s watchdog (reading a text of a few tokens takes microseconds)"},
			Families: []*vf.Family{
				mk("tokens", fmt.Sprintf("all sequences of <=4 (quick) / <=5 (thorough) tokens over %d tokens, joined by one space", len(c05Tokens)),
					func(t string) int64 { return seqSpace{len(c05Tokens), tokLen(t)}.size() },
					func(i int64) string { return tokText(tier, i) }),
				mk("bytes", fmt.Sprintf("all concatenations of <=4 (quick) / <=5 (thorough) fragments over %d byte fragments (incl. invalid UTF-8, NUL, BOM, U+029E)", len(c05Bytes)),
					func(t string) int64 { return seqSpace{len(c05Bytes), byteLen(t)}.size() },
					func(i int64) string { return byteText(tier, i) }),
				mk("preamble", fmt.Sprintf("all sequences of <=3 lines over %d preamble-ish lines x %d bodies", len(c05PreLines), len(c05PreBodies)),
					func(t string) int64 { return seqSpace{len(c05PreLines), 3}.size() * int64(len(c05PreBodies)) },
					preText),
				mk("chained-preambles", "preambles of 8, 24, 48 and 96 lines in which every line's value mentions the previous placeholders twice (4 value shapes, LF and CRLF): read and printed within the watchdog",
					func(t string) int64 { return int64(len(chainKinds)) * 4 * 2 },
					chainText),
			},
		}
	})
}
