package props

import (
	"context"
	"fmt"
	"sort"
	"strings"

	"github.com/jig/lisp/types"

	"verifharness/internal/lx"
	"verifharness/internal/model"
	"verifharness/internal/vf"
)

type c13rig struct {
	env    types.EnvType
	incFn  types.MalType
	restFn types.MalType
	bm     []model.BuiltinModel
}

var fnVal = V{K: model.KFn}
var restFnVal = V{K: model.KFn, S: "rest"} // (fn [& xs] xs)

func c13Alphabet() []V {
	L, Vc, I, S := model.List, model.Vec, model.Int, model.Str
	a, b := model.Key{Kw: true, S: "a"}, model.Key{Kw: true, S: "b"}
	base := c13AlphabetBase()
	if vf.Tier != "thorough" {
		return base
	}
	// thorough: more lengths (2 and 4 elements: a vector literal of 4 has no spare capacity, one of
	// 5 has), longer strings, a third key, an integer-keyed set, a deeper nesting
	return append(base,
		I(3), S(""), S("abc"), kw("c"),
		L(I(1), I(2)), Vc(I(1), I(2), I(3), I(4)), Vc(I(1), I(2), I(3), I(4), I(5)), L(model.Nil, I(2)),
		model.MapOf(model.MapEntry{K: a, V: I(1)}, model.MapEntry{K: b, V: I(2)}, model.MapEntry{K: model.Key{Kw: true, S: "c"}, V: Vc(I(3))}),
		model.SetOf(model.Key{S: "a"}, model.Key{S: "b"}),
		mp(kw("a"), mp(kw("b"), I(1))),
	)
}

func c13AlphabetBase() []V {
	L, Vc, I, S := model.List, model.Vec, model.Int, model.Str
	a, b := model.Key{Kw: true, S: "a"}, model.Key{Kw: true, S: "b"}
	return []V{
		model.Nil, I(0), I(1), I(2), I(-1), I(9), I(4), S("a"), kw("a"), kw("b"),
		L(), L(I(1)), L(I(1), I(2), I(3)), Vc(), Vc(I(1)), Vc(I(1), I(2), I(3)),
		mp(), mp(kw("a"), I(1)), model.MapOf(model.MapEntry{K: a, V: I(1)}, model.MapEntry{K: b, V: model.Nil}),
		model.SetOf(), model.SetOf(a, model.Key{S: "a"}),
		Vc(Vc(I(1)), mp(kw("a"), Vc(I(2)))), fnVal, restFnVal,
	}
}

func c13Small() []V {
	L, Vc, I := model.List, model.Vec, model.Int
	base := c13SmallBase()
	if vf.Tier != "thorough" {
		return base
	}
	return append(base, I(2), I(-1), model.Str("a"), L(I(1), I(2)), Vc(I(1), I(2), I(3), I(4), I(5)), mp(kw("a"), I(1), kw("b"), Vc(I(2))))
}

func c13SmallBase() []V {
	L, Vc, I := model.List, model.Vec, model.Int
	return []V{model.Nil, I(1), kw("a"), L(I(1), I(2), I(3)), Vc(I(1), I(2), I(3)), mp(kw("a"), I(1)), model.SetOf(model.Key{Kw: true, S: "a"}), L(), fnVal, I(0), Vc(kw("a")), restFnVal}
}

func (rg *c13rig) implArg(v V) types.MalType {
	if v.K == model.KFn && v.S == "rest" {
		return rg.restFn
	}
	if v.K == model.KFn {
		return rg.incFn
	}
	if v.K == model.KVec {
		// a vector literal is evaluated by eval_ast, which builds it by appending: the
		// resulting value has spare capacity, like every vector a program writes down
		return model.ToImpl(v)
	}
	return q(model.ToImpl(v))
}

// judge compares one evaluation outcome with the model's spec.
func judge(spec model.Spec, res types.MalType, err error) string {
	switch spec.Kind {
	case model.SU:
		return ""
	case model.SErr:
		if err == nil {
			return "expected an error, got value " + model.FromImpl(res).String()
		}
	case model.SErrOrNil:
		if err == nil && res != nil {
			return "expected an error or nil, got value " + model.FromImpl(res).String()
		}
	case model.SVal:
		if err != nil {
			return "expected " + spec.Val.String() + ", got error " + err.Error()
		}
		if got := model.FromImpl(res); !model.Identical(got, spec.Val) {
			return "expected " + spec.Val.String() + ", got " + got.String()
		}
	case model.SAnyOrder:
		if err != nil {
			return "expected (any order) " + spec.Val.String() + ", got error " + err.Error()
		}
		got := model.FromImpl(res)
		if got.K != spec.Val.K || !sameMultiset(got.Elems, spec.Val.Elems) {
			return "expected (any order) " + spec.Val.String() + ", got " + got.String()
		}
	}
	return ""
}

func sameMultiset(a, b []V) bool {
	if len(a) != len(b) {
		return false
	}
	as, bs := make([]string, len(a)), make([]string, len(b))
	for i := range a {
		as[i], bs[i] = a[i].String(), b[i].String()
	}
	sort.Strings(as)
	sort.Strings(bs)
	for i := range as {
		if as[i] != bs[i] {
			return false
		}
	}
	return true
}

func kindsOf(args []V) string {
	names := [...]string{"nil", "bool", "int", "string", "keyword", "symbol", "list", "vector", "map", "set", "fn", "opaque"}
	parts := make([]string, len(args))
	for i, a := range args {
		parts[i] = names[a.K]
	}
	return strings.Join(parts, ",")
}

func specName(k model.SpecKind) string {
	return [...]string{"value", "value-any-order", "must-error", "error-or-nil", "unspecified"}[k]
}

func init() {
	vf.Register("C13", func() *vf.Check {
		rg := &c13rig{bm: model.CollectionBuiltins()}
		setup := func(string) {
			rg.env = lx.NewFullEnv()
			f, err, p := lx.Eval(context.Background(), lx.MustRead("(fn [x] (+ x 1))"), rg.env)
			if err != nil || p != nil {
				panic("c13 inc fn")
			}
			rg.incFn = f
			rg.restFn, _, _ = lx.Eval(context.Background(), lx.MustRead("(fn [& xs] xs)"), rg.env)
		}
		alpha := c13Alphabet()
		small := c13Small()
		// direct family: (builtin, arity) blocks, each block = all tuples over alpha
		type block struct {
			b     int
			arity int
			size  int64
		}
		var blocks []block
		var total int64
		pow := func(n, k int) int64 {
			r := int64(1)
			for i := 0; i < k; i++ {
				r *= int64(n)
			}
			return r
		}
		for bi, b := range rg.bm {
			for _, ar := range b.Arities {
				blocks = append(blocks, block{bi, ar, pow(len(alpha), ar)})
				total += pow(len(alpha), ar)
			}
		}
		directCase := func(i int64) (bm model.BuiltinModel, args []V) {
			for _, bl := range blocks {
				if i < bl.size {
					args = make([]V, bl.arity)
					for j := bl.arity - 1; j >= 0; j-- {
						args[j] = alpha[i%int64(len(alpha))]
						i /= int64(len(alpha))
					}
					return rg.bm[bl.b], args
				}
				i -= bl.size
			}
			panic("c13 index")
		}
		run := func(ast types.MalType, spec model.Spec, name, kinds string, r *vf.Rec) {
			res, err, p := lx.Eval(context.Background(), ast, rg.env)
			r.Exec(1)
			r.Outcome(specName(spec.Kind))
			if spec.Kind != model.SU {
				r.NT()
			}
			if p != nil {
				r.Violation(fmt.Sprintf("%s panics on (%s): %s", name, kinds, panicSig(p)), p.String())
				return
			}
			if msg := judge(spec, res, err); msg != "" {
				r.Violation(fmt.Sprintf("%s wrong on (%s) [%s]", name, kinds, specName(spec.Kind)), msg)
			}
		}
		direct := &vf.Family{
			Name:   "builtin-x-tuples",
			Bounds: fmt.Sprintf("%d builtins x every argument tuple of each documented arity over %d values (nil, ints incl. negative/out-of-range, string, keywords, empty/1/3-element lists and vectors, maps incl. nil-valued key, sets, nested, a function)", len(rg.bm), len(alpha)),
			Setup:  setup,
			N:      func(string) int64 { return total },
			Describe: func(i int64) string {
				b, args := directCase(i)
				parts := []string{b.Name}
				for _, a := range args {
					if a.K == model.KFn && a.S == "rest" {
						parts = append(parts, "rest-fn")
					} else if a.K == model.KFn {
						parts = append(parts, "inc-fn")
					} else {
						parts = append(parts, a.Lisp())
					}
				}
				return "(" + strings.Join(parts, " ") + ")"
			},
			Run: func(i int64, r *vf.Rec) {
				b, args := directCase(i)
				ia := make([]types.MalType, len(args))
				for j, a := range args {
					ia[j] = rg.implArg(a)
				}
				run(callForm(b.Name, ia...), b.F(args), b.Name, kindsOf(args), r)
			},
		}
		// composition family: (g (f inner...) extra...) and (g extra (f inner...))
		type inner struct {
			b    int
			args []V
			val  V
		}
		var inners []inner
		innersOf := func() []inner {
			if inners != nil {
				return inners
			}
			for bi, b := range rg.bm {
				for _, ar := range b.Arities {
					if ar == 0 || ar > 2 {
						continue
					}
					n := pow(len(small), ar)
					for i := int64(0); i < n; i++ {
						args := make([]V, ar)
						x := i
						for j := ar - 1; j >= 0; j-- {
							args[j] = small[x%int64(len(small))]
							x /= int64(len(small))
						}
						sp := b.F(args)
						if sp.Kind == model.SVal && (sp.Val.K >= model.KList && sp.Val.K <= model.KSet || sp.Val.K == model.KNil) {
							inners = append(inners, inner{bi, args, sp.Val})
						}
					}
				}
			}
			return inners
		}
		// outer shapes: builtin x arity(1..3) x position of the inner result (0 or 1) x extras over small
		type outer struct {
			b, arity, pos int
			size          int64
		}
		var outers []outer
		var outerTotal int64
		for bi, b := range rg.bm {
			for _, ar := range b.Arities {
				if ar == 0 {
					continue
				}
				for pos := 0; pos < ar && pos < 2; pos++ {
					o := outer{bi, ar, pos, pow(len(small), ar-1)}
					outers = append(outers, o)
					outerTotal += o.size
				}
			}
		}
		compCase := func(i int64) (in inner, g model.BuiltinModel, gargs []V, pos int) {
			ins := innersOf()
			in = ins[i/outerTotal]
			j := i % outerTotal
			for _, o := range outers {
				if j < o.size {
					extra := make([]V, o.arity-1)
					for k := len(extra) - 1; k >= 0; k-- {
						extra[k] = small[j%int64(len(small))]
						j /= int64(len(small))
					}
					gargs = append(append(append([]V{}, extra[:o.pos]...), in.val), extra[o.pos:]...)
					return in, rg.bm[o.b], gargs, o.pos
				}
				j -= o.size
			}
			panic("c13 comp index")
		}
		comp := &vf.Family{
			Name:   "compositions",
			Bounds: fmt.Sprintf("(g (f a..) e..) and (g e (f a..) ..): every inner call with 1-2 arguments over %d values whose model result is a collection or nil, fed as first or second argument to every builtin/arity with the other arguments over the same %d values", len(small), len(small)),
			Setup:  setup,
			N:      func(string) int64 { return int64(len(innersOf())) * outerTotal },
			Describe: func(i int64) string {
				in, g, gargs, pos := compCase(i)
				ip := []string{rg.bm[in.b].Name}
				for _, a := range in.args {
					if a.K == model.KFn {
						ip = append(ip, "inc-fn")
					} else {
						ip = append(ip, "'"+a.Lisp())
					}
				}
				parts := []string{g.Name}
				for k, a := range gargs {
					switch {
					case k == pos:
						parts = append(parts, "("+strings.Join(ip, " ")+")")
					case a.K == model.KFn:
						parts = append(parts, "inc-fn")
					default:
						parts = append(parts, "'"+a.Lisp())
					}
				}
				return "(" + strings.Join(parts, " ") + ")"
			},
			Run: func(i int64, r *vf.Rec) {
				in, g, gargs, pos := compCase(i)
				iargs := make([]types.MalType, len(in.args))
				for k, a := range in.args {
					iargs[k] = rg.implArg(a)
				}
				// the inner call alone must meet its own spec, else it is the direct family's finding
				ires, ierr, ip := lx.Eval(context.Background(), callForm(rg.bm[in.b].Name, iargs...), rg.env)
				if ip != nil || judge(model.Spec{Kind: model.SVal, Val: in.val}, ires, ierr) != "" {
					r.Note("skipped: inner call already deviates (reported by builtin-x-tuples)")
					return
				}
				ia := make([]types.MalType, len(gargs))
				for k, a := range gargs {
					if k == pos {
						ia[k] = callForm(rg.bm[in.b].Name, iargs...)
					} else {
						ia[k] = rg.implArg(a)
					}
				}
				run(callForm(g.Name, ia...), g.F(gargs), g.Name+" of "+rg.bm[in.b].Name, kindsOf(gargs), r)
			},
		}
		// diamonds: two calls on one base value, both results and the base looked at afterwards.
		// A pure function cannot let one call's result depend on another call having happened.
		type dcall struct {
			b    int
			args []V // args[0] is the base
			val  V
		}
		var dbases []V
		for _, v := range alpha {
			if v.K >= model.KList && v.K <= model.KSet {
				dbases = append(dbases, v)
			}
		}
		dsmall := append(append([]V{}, small...), model.List(model.Int(9)), model.Vec(model.Int(8), model.Int(9)))
		var dcalls [][]dcall
		var dcum []int64
		dOf := func() ([][]dcall, []int64) {
			if dcalls != nil {
				return dcalls, dcum
			}
			var cum int64
			for _, base := range dbases {
				var cs []dcall
				for bi, b := range rg.bm {
					for _, ar := range b.Arities {
						if ar == 0 || ar > 2 {
							continue
						}
						n := pow(len(dsmall), ar-1)
						for i := int64(0); i < n; i++ {
							args := []V{base}
							if ar == 2 {
								args = append(args, dsmall[i])
							}
							if sp := b.F(args); sp.Kind == model.SVal {
								cs = append(cs, dcall{bi, args, sp.Val})
							}
						}
					}
				}
				dcalls = append(dcalls, cs)
				cum += int64(len(cs)) * int64(len(cs))
				dcum = append(dcum, cum)
			}
			return dcalls, dcum
		}
		dCase := func(i int64) (base V, f, g dcall) {
			cs, cum := dOf()
			for bi := range cs {
				if i < cum[bi] {
					if bi > 0 {
						i -= cum[bi-1]
					}
					n := int64(len(cs[bi]))
					return dbases[bi], cs[bi][i/n], cs[bi][i%n]
				}
			}
			panic("c13 diamond index")
		}
		dForm := func(c dcall) types.MalType {
			ia := []types.MalType{types.Symbol{Val: "base"}}
			for _, a := range c.args[1:] {
				ia = append(ia, rg.implArg(a))
			}
			return callForm(rg.bm[c.b].Name, ia...)
		}
		dText := func(c dcall) string {
			parts := []string{rg.bm[c.b].Name, "base"}
			for _, a := range c.args[1:] {
				if a.K == model.KFn {
					parts = append(parts, "fn")
				} else {
					parts = append(parts, "'"+a.Lisp())
				}
			}
			return "(" + strings.Join(parts, " ") + ")"
		}
		diamonds := &vf.Family{
			Name:   "diamonds",
			Bounds: fmt.Sprintf("(let [base B x (f base e) y (g base e')] [x y base]) for every collection B of the alphabet (%d values, vector literals with spare capacity) and every ordered pair of calls f, g (builtin x arity 1-2, second argument over %d values) whose model result is a plain value: x, y and base must be what the model gives for each alone", len(dbases), len(dsmall)),
			Setup:  setup,
			N:      func(string) int64 { _, cum := dOf(); return cum[len(cum)-1] },
			Describe: func(i int64) string {
				base, f, g := dCase(i)
				return fmt.Sprintf("(let [base '%s x %s y %s] [x y base])", base.Lisp(), dText(f), dText(g))
			},
			Run: func(i int64, r *vf.Rec) {
				base, f, g := dCase(i)
				sym := func(n string) types.MalType { return types.Symbol{Val: n} }
				ast := types.List{Val: []types.MalType{sym("let"),
					types.Vector{Val: []types.MalType{sym("base"), rg.implArg(base), sym("x"), dForm(f), sym("y"), dForm(g)}},
					types.Vector{Val: []types.MalType{sym("x"), sym("y"), sym("base")}}}}
				want := model.Spec{Kind: model.SVal, Val: model.Vec(f.val, g.val, base)}
				run(ast, want, rg.bm[g.b].Name+" after "+rg.bm[f.b].Name+" on one base", kindsOf([]V{base}), r)
			},
		}
		// rename-keys: every map over {:a :b :c} x every renaming of those keys (swaps, chains,
		// rotations, collisions, non-key targets)
		rkTargets := []V{{}, kw("a"), kw("b"), kw("c"), model.Str("x"), model.Int(1)}
		rkKeys := []string{"a", "b", "c"}
		nT := int64(len(rkTargets))
		rename := &vf.Family{
			Name:   "rename-keys-exhaustive",
			Bounds: "every map over keys {:a :b :c} (8 key sets) x every renaming map sending each of :a :b :c to nothing, :a, :b, :c, \"x\" or a non-key (216 renamings): swaps, chains, rotations, collisions",
			Setup:  setup,
			N:      func(string) int64 { return 8 * nT * nT * nT },
			Describe: func(i int64) string {
				m, ren := renameCase(i, rkTargets, rkKeys)
				return fmt.Sprintf("(rename-keys %s %s)", m.Lisp(), ren.Lisp())
			},
			Run: func(i int64, r *vf.Rec) {
				m, ren := renameCase(i, rkTargets, rkKeys)
				var bm model.BuiltinModel
				for _, b := range rg.bm {
					if b.Name == "rename-keys" {
						bm = b
					}
				}
				run(callForm("rename-keys", q(model.ToImpl(m)), q(model.ToImpl(ren))), bm.F([]V{m, ren}), "rename-keys", "map,map", r)
			},
		}
		return &vf.Check{
			ID: "C13", Level: "model_checking",
			Rule:        "every (builtin, argument tuple) of the bounded space and every depth-2 composition is evaluated through the real EVAL and compared with a three-valued abstract model of sequences / string-keyed maps / string sets (exact value with kind, value in any order, must-error, error-or-nil, unspecified); non-trivial = the model specifies the outcome",
			Assumptions: []string{"the model (harness/internal/model/coll.go) transcribes README + tests/step*.mal; everything they leave open is 'unspecified' and accepts any non-panicking outcome", "wrong argument counts are not generated"},
			Families:    []*vf.Family{direct, comp, diamonds, rename},
		}
	})
}

func renameCase(i int64, targets []V, keys []string) (m, ren V) {
	nT := int64(len(targets))
	var rents []model.MapEntry
	x := i
	for _, k := range keys {
		t := targets[x%nT]
		x /= nT
		if t.K == model.KNil && t.S == "" && t.I == 0 && t.Elems == nil && !t.B {
			// zero Value = key not renamed (model.Nil is also the zero value: index 0 means absent)
			continue
		}
		rents = append(rents, model.MapEntry{K: model.Key{Kw: true, S: k}, V: t})
	}
	var ments []model.MapEntry
	for bi, k := range keys {
		if x&(1<<uint(bi)) != 0 {
			ments = append(ments, model.MapEntry{K: model.Key{Kw: true, S: k}, V: model.Int(bi + 1)})
		}
	}
	return model.MapOf(ments...), model.MapOf(rents...)
}
