package props

import (
	"errors"
	"fmt"
	"sort"
	"strings"
	"time"

	lisp "github.com/jig/lisp"
	"github.com/jig/lisp/env"
	"github.com/jig/lisp/types"

	"verifharness/internal/enum"
	"verifharness/internal/lx"
	"verifharness/internal/model"
	"verifharness/internal/vclock"
	"verifharness/internal/vf"
)

type V = model.Value

func sym(s string) V          { return model.Sym(s) }
func form(h string, a ...V) V { return model.List(append([]V{sym(h)}, a...)...) }
func leaf(name string, v V) enum.Prod {
	return enum.Prod{Name: name, Weight: 1, Build: func([]V) V { return v }}
}
func node(name string, n int, b func(k []V) V) enum.Prod {
	kids := make([]int, n)
	return enum.Prod{Name: name, Weight: 1, Kids: kids, Build: b}
}

// c01Grammar: the core-form program grammar of DESIGN §4 C01. extra adds leaves/forms
// for the closure/recursion family.
func c01Prods(extra bool) []enum.Prod {
	ps := []enum.Prod{
		leaf("nil", model.Nil), leaf("0", model.Int(0)), leaf("1", model.Int(1)),
		leaf("x", sym("x")), leaf("y", sym("y")),
		leaf("(t! 0)", form("t!", model.Int(0))), leaf("(t! 1)", form("t!", model.Int(1))),
		leaf("(do)", form("do")), leaf("(list)", form("list")), leaf("'a", form("quote", sym("a"))),
		leaf("false", model.Bool(false)),
		leaf("1.5", model.Opaque("float32")), // a float: evaluates to itself, and is no integer for + and <
	}
	if extra {
		ps = append(ps, leaf("f", sym("f")), leaf("2", model.Int(2)))
	}
	ps = append(ps,
		node("if3", 3, func(k []V) V { return form("if", k[0], k[1], k[2]) }),
		node("if2", 2, func(k []V) V { return form("if", k[0], k[1]) }),
		node("do1", 1, func(k []V) V { return form("do", k[0]) }),
		node("do2", 2, func(k []V) V { return form("do", k[0], k[1]) }),
		node("let0", 1, func(k []V) V { return form("let", model.Vec(sym("x"), k[0])) }),
		node("let1", 2, func(k []V) V { return form("let", model.List(sym("x"), k[0]), k[1]) }),
		node("let2", 3, func(k []V) V { return form("let", model.Vec(sym("x"), k[0]), k[1], k[2]) }),
	)
	params := []V{model.Vec(sym("x")), model.List(sym("&"), sym("y")), model.Vec(sym("x"), sym("&"), sym("y")), model.Vec()}
	for pi, p := range params {
		p := p
		ps = append(ps,
			node(fmt.Sprintf("fn%d-0", pi), 0, func(k []V) V { return form("fn", p) }),
			node(fmt.Sprintf("fn%d-1", pi), 1, func(k []V) V { return form("fn", p, k[0]) }),
			node(fmt.Sprintf("fn%d-2", pi), 2, func(k []V) V { return form("fn", p, k[0], k[1]) }),
		)
	}
	ps = append(ps,
		node("defx", 1, func(k []V) V { return form("def", sym("x"), k[0]) }),
		node("defy", 1, func(k []V) V { return form("def", sym("y"), k[0]) }),
		node("app0", 1, func(k []V) V { return model.List(k[0]) }),
		node("app1", 2, func(k []V) V { return model.List(k[0], k[1]) }),
		node("app2", 3, func(k []V) V { return model.List(k[0], k[1], k[2]) }),
		node("+", 2, func(k []V) V { return form("+", k[0], k[1]) }),
		node("=", 2, func(k []V) V { return form("=", k[0], k[1]) }),
		node("list1", 1, func(k []V) V { return form("list", k[0]) }),
		node("list2", 2, func(k []V) V { return form("list", k[0], k[1]) }),
	)
	if extra {
		ps = append(ps,
			node("<", 2, func(k []V) V { return form("<", k[0], k[1]) }),
			node("count", 1, func(k []V) V { return form("count", k[0]) }),
			node("-", 2, func(k []V) V { return form("-", k[0], k[1]) }),
		)
	}
	return ps
}

// implOutcome is what one run of the implementation produced, in model terms.
type implOutcome struct {
	Err     error
	Val     V
	IsErr   bool
	Thrown  bool // error carries a lisp value (not a Go error)
	Payload V
	ErrMsg  string
	Trace   []V
	Fuel    bool
	Panic   *lx.Panic
}

type evalRig struct {
	ntTraceOnly bool
	farDeadline bool      // evaluate under a context whose deadline is far away (nothing times out)
	deadlineAt  time.Time // that deadline (zero: an hour from now)
	base        types.EnvType
	tracer      *lx.Tracer
	mbase       *model.Scope
}

func newEvalRig(full bool) *evalRig {
	r := &evalRig{tracer: &lx.Tracer{}}
	if full {
		r.base = lx.NewFullEnv()
	} else {
		r.base = lx.NewCoreEnv()
	}
	r.tracer.Install(r.base)
	installGoBuiltins(r.base)
	r.mbase = model.BaseScope()
	return r
}

// runImpl evaluates ast in a fresh child scope of the preloaded environment.
func (rg *evalRig) runImpl(ast types.MalType, polls int) (out implOutcome, scope types.EnvType) {
	rg.tracer.Reset()
	scope = env.NewSubordinateEnv(rg.base)
	ctx := vclock.NewPollCtx(polls)
	if rg.farDeadline {
		d := rg.deadlineAt
		if d.IsZero() {
			d = time.Now().Add(time.Hour)
		}
		ctx = ctx.WithDeadline(d)
	}
	res, err, p := lx.Eval(ctx, ast, scope)
	out.Trace = make([]V, len(rg.tracer.Log))
	for i, t := range rg.tracer.Log {
		out.Trace[i] = model.FromImpl(t)
	}
	out.Panic = p
	out.Fuel = ctx.Cancelled()
	if p != nil {
		return
	}
	if err != nil {
		out.IsErr = true
		out.Err = err
		out.ErrMsg = err.Error()
		if ev, ok := lx.ErrValue(err); ok {
			if _, isGo := ev.(error); !isGo {
				out.Thrown = true
				out.Payload = model.FromImpl(ev)
			}
		}
		return
	}
	out.Val = model.FromImpl(res)
	return
}

func traceStr(t []V) string {
	parts := make([]string, len(t))
	for i, v := range t {
		parts[i] = v.String()
	}
	return "[" + strings.Join(parts, " ") + "]"
}

func headOf(p V) string {
	if p.K == model.KList && len(p.Elems) > 0 && p.Elems[0].K == model.KSym {
		return p.Elems[0].S
	}
	if p.K == model.KList {
		return "(app)"
	}
	return "atom"
}

func headsOf(p V, acc map[string]bool) {
	if p.K == model.KList || p.K == model.KVec {
		if p.K == model.KList && len(p.Elems) > 0 && p.Elems[0].K == model.KSym {
			acc[p.Elems[0].S] = true
		}
		for _, e := range p.Elems {
			headsOf(e, acc)
		}
	}
}

func headSet(p V) string {
	m := map[string]bool{}
	headsOf(p, m)
	var ks []string
	for k := range m {
		switch k {
		case "def", "let", "if", "do", "fn", "quote", "try", "catch", "finally", "throw", "defmacro", "quasiquote", "macroexpand":
			ks = append(ks, k)
		}
	}
	sort.Strings(ks)
	return strings.Join(ks, ",")
}

// compareWithModel runs prog on both sides and reports disagreements.
// names are the globals whose final binding is compared.
func (rg *evalRig) compareWithModel(prog V, names []string, r *vf.Rec, viaText bool) {
	var ast types.MalType
	if viaText {
		a, err := lisp.READ(prog.Lisp(), nil, nil)
		if err != nil {
			r.Violation("harness: generated program does not read", err.Error())
			return
		}
		ast = a
	} else {
		ast = model.ToImpl(prog)
	}
	in := &model.Interp{Fuel: 20000}
	msc := model.NewScope(rg.mbase)
	mv, merr := in.Eval(prog, msc)
	if merr != nil && (merr.Class == model.EFuel || merr.Class == model.EMalformed) {
		r.Note("skipped: model " + merr.Class.String())
		return
	}
	if in.Unspec {
		r.Note("skipped: unspecified by the definition")
		return
	}
	out, scope := rg.runImpl(ast, 3000)
	r.Exec(1)
	if out.Panic != nil {
		r.Violation("panic on well-formed program: "+panicSig(out.Panic), out.Panic.String()+"\n"+trimStack(out.Panic.Stack))
		return
	}
	if out.Fuel {
		r.Note("skipped: impl out of fuel")
		return
	}
	if len(in.Trace) > 0 || (!rg.ntTraceOnly && len(msc.OwnNames()) > 0) {
		r.NT()
	}
	hs := headSet(prog)
	bad := func(kind, detail string) {
		r.Violation(kind+" ["+hs+"]", detail)
	}
	exp := func() string {
		if merr != nil {
			return "error " + merr.String()
		}
		return "value " + mv.String()
	}
	got := func() string {
		if out.IsErr {
			if out.Thrown {
				return "error thrown " + out.Payload.String()
			}
			return "error " + out.ErrMsg
		}
		return "value " + out.Val.String()
	}
	if !sameTrace(in.Trace, out.Trace) {
		bad("effect trace differs", fmt.Sprintf("expected trace %s (%s), got trace %s (%s)", traceStr(in.Trace), exp(), traceStr(out.Trace), got()))
		return
	}
	switch {
	case (merr != nil) != out.IsErr:
		bad("value/error differs", fmt.Sprintf("expected %s, got %s", exp(), got()))
		return
	case merr != nil:
		r.Outcome("error")
		// Only an explicit (throw v) prescribes what the error carries; how a builtin's
		// domain/arity failure or an unbound symbol is represented is not prescribed.
		mThrown := merr.Class == model.EThrown
		if mThrown && !out.Thrown {
			bad("error kind differs", fmt.Sprintf("expected %s, got %s", exp(), got()))
			return
		}
		if merr.Class == model.EGo && out.Thrown {
			bad("error kind differs", fmt.Sprintf("expected %s, got %s", exp(), got()))
			return
		}
		if merr.Class == model.EGo && merr.Sentinel != "" {
			want := ErrBoom
			if merr.Sentinel == "pan" {
				want = ErrPan
			}
			if !errors.Is(out.Err, want) {
				bad("Go error no longer reachable with errors.Is", fmt.Sprintf("expected errors.Is(err, %v); got %s", want, got()))
				return
			}
		}
		if mThrown && !model.Identical(merr.Payload, out.Payload) {
			bad("thrown value differs", fmt.Sprintf("expected %s, got %s", exp(), got()))
			return
		}
	default:
		r.Outcome("value")
		if !model.Identical(mv, out.Val) {
			bad("result differs", fmt.Sprintf("expected %s, got %s", exp(), got()))
			return
		}
	}
	for _, n := range names {
		mb, mok := msc.Own(n)
		ib, ierr := scope.Get(types.Symbol{Val: n})
		if mok != (ierr == nil) {
			bad("final binding differs", fmt.Sprintf("%s: expected bound=%v got bound=%v", n, mok, ierr == nil))
			return
		}
		if mok && !model.Identical(mb, model.FromImpl(ib)) {
			bad("final binding differs", fmt.Sprintf("%s: expected %s got %s", n, mb.String(), model.FromImpl(ib).String()))
			return
		}
	}
}

func sameTrace(a, b []V) bool {
	if len(a) != len(b) {
		return false
	}
	for i := range a {
		if !model.Identical(a[i], b[i]) {
			return false
		}
	}
	return true
}

func init() {
	vf.Register("C01", func() *vf.Check {
		var rg *evalRig
		setup := func(string) { rg = newEvalRig(false) }
		wOf := func(t string) int {
			if t == "thorough" {
				return 6
			}
			return 5
		}
		var g *enum.Grammar
		gOf := func(t string) *enum.Grammar {
			if g == nil {
				g = enum.New([][]enum.Prod{c01Prods(false)}, wOf(t))
			}
			return g
		}
		var tier string
		core := &vf.Family{
			Name:     "core-forms",
			Bounds:   "all programs of weight <=5 (quick) / <=6 (thorough) over 11 leaves (nil 0 1 x y (t! 0) (t! 1) (do) (list) 'a false) and 27 forms (if/do/let/fn with 4 parameter shapes []/[x]/(& y)/[x & y]/def/application/+/list), each via READ then EVAL in a fresh child scope",
			Setup:    func(t string) { tier = t; setup(t) },
			N:        func(t string) int64 { tier = t; return gOf(t).Count(0, wOf(t)) },
			Describe: func(i int64) string { return gOf(tier).Unrank(0, i).Lisp() },
			Run: func(i int64, r *vf.Rec) {
				rg.compareWithModel(gOf(tier).Unrank(0, i), []string{"x", "y"}, r, true)
			},
		}
		// the same programs handed over as ASTs built from Go: no node carries a source position, and all
		// programs of a worker run in one process one after the other (whatever the evaluator remembers per
		// source position, or from one evaluation to the next, must not show)
		coreNoPos := &vf.Family{
			Name:     "core-forms-without-source-positions",
			Bounds:   "all programs of weight <=4 (quick) / <=5 (thorough) of the core-forms grammar, each delivered as an AST built from Go (no source positions) and evaluated in a fresh child scope; all programs of a worker in one process",
			Setup:    func(t string) { tier = t; setup(t) },
			N:        func(t string) int64 { tier = t; return gOf(t).Count(0, wOf(t)-1) },
			Describe: func(i int64) string { return gOf(tier).Unrank(0, i).Lisp() + "   ; as an AST without source positions" },
			Run: func(i int64, r *vf.Rec) {
				rg.compareWithModel(gOf(tier).Unrank(0, i), []string{"x", "y"}, r, false)
			},
		}
		// and under a caller context whose deadline is an hour away (nothing times out: same outcome)
		var rgFar *evalRig
		coreFar := &vf.Family{
			Name:   "core-forms-under-a-far-deadline",
			Bounds: "all programs of weight <=4 (quick) / <=5 (thorough) of the core-forms grammar, read from text and evaluated under a context whose deadline is an hour away",
			Setup:  func(t string) { tier = t; rgFar = newEvalRig(false); rgFar.farDeadline = true },
			N:      func(t string) int64 { tier = t; return gOf(t).Count(0, wOf(t)-1) },
			Describe: func(i int64) string {
				return gOf(tier).Unrank(0, i).Lisp() + "   ; under a context whose deadline is an hour away"
			},
			Run: func(i int64, r *vf.Rec) {
				rgFar.compareWithModel(gOf(tier).Unrank(0, i), []string{"x", "y"}, r, true)
			},
		}
		// closure / recursion family: (do (def f (fn P B)) C)
		var g2 *enum.Grammar
		g2Of := func() *enum.Grammar {
			if g2 == nil {
				g2 = enum.New([][]enum.Prod{c01Prods(true)}, 3)
			}
			return g2
		}
		params := []V{model.Vec(sym("x")), model.List(sym("&"), sym("y")), model.Vec(sym("x"), sym("&"), sym("y"))}
		recN := func(t string) int64 {
			n := g2Of().Count(0, 3)
			if t != "thorough" {
				n = g2Of().Count(0, 2)
			}
			return n
		}
		recProg := func(i int64) V {
			n := recN(tier)
			c := i % n
			b := (i / n) % n
			p := i / (n * n)
			return form("do", form("def", sym("f"), form("fn", params[p], g2Of().Unrank(0, b))), g2Of().Unrank(0, c))
		}
		rec := &vf.Family{
			Name:     "closure-recursion",
			Bounds:   "(do (def f (fn P B)) C) for the 3 parameter shapes and every B, C of weight <=2 (quick) / <=3 (thorough) over the alphabet extended with f, false, 2, <, count, -",
			Setup:    func(t string) { tier = t; setup(t) },
			N:        func(t string) int64 { tier = t; n := recN(t); return n * n * 3 },
			Describe: func(i int64) string { return recProg(i).Lisp() },
			Run: func(i int64, r *vf.Rec) {
				rg.compareWithModel(recProg(i), []string{"x", "y", "f"}, r, false)
			},
		}
		// scoping family: tiny alphabet, deep nesting of scope-forming constructs only
		var sg, sgFull *enum.Grammar
		scopeW := func() int {
			if tier == "thorough" {
				return 10
			}
			return 9
		}
		sgOf := func() *enum.Grammar {
			if sg == nil {
				sg = c01ScopeGrammar(scopeW(), false)
			}
			return sg
		}
		sgFullOf := func() *enum.Grammar {
			if sgFull == nil {
				w := 7
				if tier == "thorough" {
					w = 9
				}
				sgFull = c01ScopeGrammar(w, true)
			}
			return sgFull
		}
		scopeN := func() (int64, int64) {
			fw := 7
			if tier == "thorough" {
				fw = 9
			}
			return sgOf().Count(0, scopeW()), sgFullOf().Count(0, fw)
		}
		scopeProg := func(i int64) V {
			a, _ := scopeN()
			if i < a {
				return sgOf().Unrank(0, i)
			}
			return sgFullOf().Unrank(0, i-a)
		}
		scoping := &vf.Family{
			Name:     "scoping",
			Bounds:   "all programs of weight <=9 (quick) / <=10 (thorough) over leaves {x, y, 1, 2} and only scope-forming constructs (let x, let y, zero-parameter closure, call of it, one-parameter fn applied in place), plus weight <=7 / <=9 with list, if, (do (def x ..) ..), (apply f (list)) and a zero-parameter closure whose body is (def x ..) added: closures made in one scope, shadowed later in tail position, then called",
			Setup:    func(t string) { tier = t; setup(t) },
			N:        func(t string) int64 { tier = t; a, b := scopeN(); return a + b },
			Describe: func(i int64) string { return scopeProg(i).Lisp() },
			Run: func(i int64, r *vf.Rec) {
				rg.compareWithModel(scopeProg(i), []string{"x", "y"}, r, false)
			},
		}
		// vector and map literals are expressions too: their elements are evaluated left to right wherever
		// the literal stands, also as a statement of a body whose value is dropped
		var lg *enum.Grammar
		lgW := func() int {
			if tier == "thorough" {
				return 6
			}
			return 5
		}
		lgOf := func() *enum.Grammar {
			if lg == nil {
				ps := []enum.Prod{
					leaf("1", model.Int(1)), leaf("x", sym("x")), leaf("zz", sym("zz")), leaf("(t! 0)", form("t!", model.Int(0))), leaf("(t! 1)", form("t!", model.Int(1))),
					leaf("[]", model.Vec()), leaf("{}", mp()),
					node("vec1", 1, func(k []V) V { return model.Vec(k[0]) }),
					node("vec2", 2, func(k []V) V { return model.Vec(k[0], k[1]) }),
					node("map1", 1, func(k []V) V { return mp(kw("k"), k[0]) }),
					node("do2", 2, func(k []V) V { return form("do", k[0], k[1]) }),
					node("do3", 3, func(k []V) V { return form("do", k[0], k[1], k[2]) }),
					node("let-body2", 3, func(k []V) V { return form("let", model.Vec(sym("x"), k[0]), k[1], k[2]) }),
					node("fn-body2-called", 2, func(k []V) V { return model.List(form("fn", model.Vec(), k[0], k[1])) }),
					node("defx", 1, func(k []V) V { return form("def", sym("x"), k[0]) }),
					node("if3", 3, func(k []V) V { return form("if", k[0], k[1], k[2]) }),
					node("list1", 1, func(k []V) V { return form("list", k[0]) }),
					node("try-catch", 2, func(k []V) V { return form("try", k[0], form("catch", sym("e"), k[1])) }),
				}
				lg = enum.New([][]enum.Prod{ps}, lgW())
			}
			return lg
		}
		literals := &vf.Family{
			Name:     "literals-in-bodies",
			Bounds:   "all programs of weight <=5 (quick) / <=6 (thorough) over leaves {1, x, zz (unbound), (t! 0), (t! 1), [], {}} and vector literals of 1 and 2 elements, a map literal, do of 2 and 3 forms, let and fn bodies of 2 forms, def, if, list, try/catch",
			Setup:    func(t string) { tier = t; setup(t) },
			N:        func(t string) int64 { tier = t; return lgOf().Count(0, lgW()) },
			Describe: func(i int64) string { return lgOf().Unrank(0, i).Lisp() },
			Run: func(i int64, r *vf.Rec) {
				rg.compareWithModel(lgOf().Unrank(0, i), []string{"x", "y"}, r, true)
			},
		}
		// loops written as self (and mutual) tail calls whose iterations let their scope escape: a closure
		// made in one iteration and called after the loop, a def in the body of one iteration looked for in
		// the next one; every iteration has a scope of its own
		loopEscapes := []string{
			"(list (fn [] x) k)", "(list (fn [] (list x (count k))) k)", "(cons (fn [] x) k)", "(list (let [x2 x] (fn [] (+ x2 x))) k)",
		}
		loopTails := []string{"%s", "(do 1 %s)", "(let [z 1] %s)", "(if true %s 0)", "((fn [] %s))"}
		loopShapes := []string{
			// self tail call, result is the chain of closures, called afterwards (newest first)
			"(do (def f (fn [x k] (if (< x 3) TAIL k))) (def run (fn [k] (if (first k) (do (t! ((first k))) (run (first (rest k)))) nil))) (run (f 0 (list))))",
			// the same with a def in the body: the next iteration must not see it
			"(do (def f (fn [x k] (t! (try y (catch e (quote none)))) (def y x) (if (< x 3) TAIL k))) (def run (fn [k] (if (first k) (do (t! ((first k))) (run (first (rest k)))) nil))) (run (f 0 (list))))",
			// mutual tail calls
			"(do (def g (fn [x k] (f x k))) (def f (fn [x k] (if (< x 3) TAILG k))) (def run (fn [k] (if (first k) (do (t! ((first k))) (run (first (rest k)))) nil))) (run (f 0 (list))))",
			// the loop called from inside another call of itself (argument position), then as a tail call
			"(do (def f (fn [x k] (if (< x 2) TAIL k))) (def run (fn [k] (if (first k) (do (t! ((first k))) (run (first (rest k)))) nil))) (run (f 0 (f 1 (list)))))",
		}
		loopProg := func(i int64) string {
			e := loopEscapes[i%int64(len(loopEscapes))]
			i /= int64(len(loopEscapes))
			tl := loopTails[i%int64(len(loopTails))]
			i /= int64(len(loopTails))
			sh := loopShapes[i]
			sh = strings.ReplaceAll(sh, "TAILG", fmt.Sprintf(tl, "(g (+ x 1) "+e+")"))
			return strings.ReplaceAll(sh, "TAIL", fmt.Sprintf(tl, "(f (+ x 1) "+e+")"))
		}
		loops := &vf.Family{
			Name:     "loops-whose-scopes-escape",
			Bounds:   fmt.Sprintf("%d loop shapes (self tail call, with a def in the body, mutual tail calls, a loop nested in its own argument) x %d positions of the tail call (bare, in do, in let, in if, in a called thunk) x %d ways an iteration's scope escapes (closures over the parameters, made in let); the closures are called after the loop", len(loopShapes), len(loopTails), len(loopEscapes)),
			Setup:    func(t string) { tier = t; setup(t) },
			N:        func(t string) int64 { return int64(len(loopShapes) * len(loopTails) * len(loopEscapes)) },
			Describe: loopProg,
			Run: func(i int64, r *vf.Rec) {
				rg.compareWithModel(model.FromImpl(lx.MustRead(loopProg(i))), []string{"x", "y"}, r, true)
			},
		}
		return &vf.Check{
			ID: "C01", Level: "model_checking",
			Rule:        "every program of the bounded grammar is evaluated by the real EVAL and by an independent definitional interpreter; result (or error kind and thrown value), ordered effect trace and final bindings of x, y, f must agree; non-trivial = the program has effects or binds a global",
			Assumptions: []string{"the definitional interpreter (harness/internal/model/interp.go) transcribes the mal definition as amended by the README", "error messages are not compared, only value-vs-error, thrown payload, trace and bindings", "programs that run out of fuel on either side are skipped and counted"},
			Families:    []*vf.Family{core, rec, scoping, literals, loops, coreNoPos, coreFar},
		}
	})
}
