package props

import (
	"fmt"

	"github.com/jig/lisp/env"
	"github.com/jig/lisp/types"

	"verifharness/internal/enum"
	"verifharness/internal/lx"
	"verifharness/internal/model"
	"verifharness/internal/vclock"
	"verifharness/internal/vf"
)

func unq(e V) V  { return form("unquote", e) }
func sunq(e V) V { return form("splice-unquote", e) }

// c12DataGrammar: quasiquote data templates. NT0 = template, NT1 = element (template or
// splice), NT2 = unquoted expression.
func c12DataGrammar(maxW int) *enum.Grammar {
	const T, EL, EX = 0, 1, 2
	kA := model.MapOf(model.MapEntry{K: model.Key{Kw: true, S: "k"}, V: sym("a")})
	exprs := []enum.Prod{
		leaf("x", sym("x")), leaf("l", sym("l")), leaf("v", sym("v")), leaf("e", sym("e")),
		leaf("(list 8 9)", form("list", model.Int(8), model.Int(9))), leaf("(t! 1)", form("t!", model.Int(1))),
		leaf("(t! l)", form("t!", sym("l"))),
	}
	tm := []enum.Prod{
		leaf("1", model.Int(1)), leaf("a", sym("a")), leaf("()", model.List()), leaf("{:k a}", kA), leaf("nil", model.Nil),
		leaf(`"s"`, model.Str("s")), leaf("unquote-sym", sym("unquote")), leaf("quasiquote-sym", sym("quasiquote")),
		leaf("[]", model.Vec()),
		{Name: "~", Weight: 1, Kids: []int{EX}, Build: func(k []V) V { return unq(k[0]) }},
	}
	for n := 1; n <= 3; n++ {
		n := n
		kids := make([]int, n)
		for i := range kids {
			kids[i] = EL
		}
		tm = append(tm,
			enum.Prod{Name: fmt.Sprintf("list%d", n), Weight: 1, Kids: kids, Build: func(k []V) V { return model.List(append([]V{}, k...)...) }},
			enum.Prod{Name: fmt.Sprintf("vec%d", n), Weight: 1, Kids: kids, Build: func(k []V) V { return model.Vec(append([]V{}, k...)...) }},
		)
	}
	// an element is any template (same weight) or a splice
	el := append(append([]enum.Prod{}, tm...),
		enum.Prod{Name: "~@", Weight: 1, Kids: []int{EX}, Build: func(k []V) V { return sunq(k[0]) }})
	return enum.New([][]enum.Prod{tm, el, exprs}, maxW)
}

// c12CodeGrammar: macro bodies (code templates over parameters p and rest r).
func c12CodeGrammar(maxW int) *enum.Grammar {
	const CT, EL = 0, 1
	el := []enum.Prod{
		leaf("~p", unq(sym("p"))), leaf("~@r", sunq(sym("r"))), leaf("~(first r)", unq(form("first", sym("r")))),
		leaf("1", model.Int(1)), leaf("(t! 2)", form("t!", model.Int(2))), leaf("y", sym("y")), leaf("p", sym("p")),
	}
	mk := func(name string, n int, b func(k []V) V) enum.Prod {
		kids := make([]int, n)
		for i := range kids {
			kids[i] = EL
		}
		return enum.Prod{Name: name, Weight: 1, Kids: kids, Build: b}
	}
	ct := []enum.Prod{
		mk("list1", 1, func(k []V) V { return form("list", k[0]) }),
		mk("list2", 2, func(k []V) V { return form("list", k[0], k[1]) }),
		mk("if3", 3, func(k []V) V { return form("if", k[0], k[1], k[2]) }),
		mk("do1", 1, func(k []V) V { return form("do", k[0]) }),
		mk("do2", 2, func(k []V) V { return form("do", k[0], k[1]) }),
		mk("vec2", 2, func(k []V) V { return model.Vec(k[0], k[1]) }),
		mk("quote", 1, func(k []V) V { return form("quote", k[0]) }),
		mk("+", 2, func(k []V) V { return form("+", k[0], k[1]) }),
		mk("let", 2, func(k []V) V { return form("let", model.Vec(sym("p"), k[0]), k[1]) }),
		mk("app1", 1, func(k []V) V { return model.List(k[0]) }),
		mk("app2", 2, func(k []V) V { return model.List(k[0], k[1]) }),
	}
	el = append(el, ct...) // an element may be a nested code template
	return enum.New([][]enum.Prod{ct, el}, maxW)
}

var c12Operands = []V{model.Int(1), form("t!", model.Int(1)), sym("y"), form("list", model.Int(1)), model.Nil, sym("list"), sym("mac")}

// c12Args enumerates operand tuples of length 1..2 (quick) / 1..3 (thorough).
func c12Args(maxLen int) [][]V {
	var out [][]V
	var rec func(cur []V, l int)
	rec = func(cur []V, l int) {
		if len(cur) == l {
			out = append(out, append([]V{}, cur...))
			return
		}
		for _, o := range c12Operands {
			rec(append(cur, o), l)
		}
	}
	for l := 1; l <= maxLen; l++ {
		rec(nil, l)
	}
	return out
}

// qqWellFormed: every list headed by unquote / splice-unquote has exactly one operand.
func qqWellFormed(t V) bool {
	if t.K == model.KList && len(t.Elems) > 0 && t.Elems[0].K == model.KSym &&
		(t.Elems[0].S == "unquote" || t.Elems[0].S == "splice-unquote") && len(t.Elems) != 2 {
		return false
	}
	if t.K == model.KList || t.K == model.KVec {
		for _, e := range t.Elems {
			if !qqWellFormed(e) {
				return false
			}
		}
	}
	return true
}

type c12rig struct {
	*evalRig
}

func newC12Rig() *c12rig {
	rg := &c12rig{newEvalRig(true)}
	rg.ntTraceOnly = true
	// globals used by templates, on both sides
	pre := `(do (def x 7) (def l (list 1 2)) (def v [3]) (def e (list)) (def y 5))`
	if _, err, p := lx.Eval(nil, lx.MustRead(pre), rg.base); err != nil || p != nil {
		panic(fmt.Sprint("c12 prelude: ", err, p))
	}
	in := &model.Interp{Fuel: 1000}
	if _, err := in.Eval(model.FromImpl(lx.MustRead(pre)), rg.mbase); err != nil {
		panic("c12 model prelude: " + err.String())
	}
	return rg
}

// evalIn evaluates ast in scope with fuel, returning outcome in model terms.
func (rg *c12rig) evalIn(ast types.MalType, scope types.EnvType) implOutcome {
	var out implOutcome
	rg.tracer.Reset()
	ctx := vclock.NewPollCtx(3000)
	res, err, p := lx.Eval(ctx, ast, scope)
	for _, t := range rg.tracer.Log {
		out.Trace = append(out.Trace, model.FromImpl(t))
	}
	out.Panic, out.Fuel = p, ctx.Cancelled()
	if p != nil {
		return out
	}
	if err != nil {
		out.IsErr, out.Err, out.ErrMsg = true, err, err.Error()
		if ev, ok := lx.ErrValue(err); ok {
			if _, isGo := ev.(error); !isGo {
				out.Thrown, out.Payload = true, model.FromImpl(ev)
			}
		}
		return out
	}
	out.Val = model.FromImpl(res)
	return out
}

func outStr(o implOutcome) string {
	switch {
	case o.Panic != nil:
		return "PANIC " + o.Panic.String()
	case o.IsErr && o.Thrown:
		return "thrown " + o.Payload.String() + " trace " + traceStr(o.Trace)
	case o.IsErr:
		return "error " + o.ErrMsg + " trace " + traceStr(o.Trace)
	}
	return "value " + o.Val.String() + " trace " + traceStr(o.Trace)
}

func sameOutcome(a, b implOutcome) bool {
	if (a.Panic != nil) != (b.Panic != nil) || a.IsErr != b.IsErr || a.Thrown != b.Thrown {
		return false
	}
	if !sameTrace(a.Trace, b.Trace) {
		return false
	}
	if a.IsErr {
		return !a.Thrown || model.Identical(a.Payload, b.Payload)
	}
	return model.Identical(a.Val, b.Val)
}

// macroDiff: (mac args) must equal evaluating the value of (macroexpand (mac args)),
// whose head must no longer be a macro.
func (rg *c12rig) macroDiff(defs V, call V, r *vf.Rec) {
	scope := env.NewSubordinateEnv(rg.base)
	if o := rg.evalIn(model.ToImpl(defs), scope); o.Panic != nil || o.IsErr {
		r.Note("macro definition failed on impl: " + headOf(defs))
		return
	}
	direct := rg.evalIn(model.ToImpl(call), scope)
	exp := rg.evalIn(model.ToImpl(form("macroexpand", call)), scope)
	r.Exec(3)
	if direct.Fuel || exp.Fuel {
		r.Note("skipped: fuel")
		return
	}
	if exp.Panic != nil {
		r.Violation("macroexpand panics: "+panicSig(exp.Panic), exp.Panic.String())
		return
	}
	if exp.IsErr {
		// the expansion itself fails (the macro body throws): the call must fail the same way
		if !sameOutcome(direct, exp) {
			r.Violation("macro call differs from failing macroexpand", "call: "+outStr(direct)+"\nmacroexpand: "+outStr(exp))
		}
		return
	}
	expTrace := exp.Trace
	// head of the expansion must not be a macro
	if exp.Val.K == model.KList && len(exp.Val.Elems) > 0 && exp.Val.Elems[0].K == model.KSym {
		if v, err := scope.Get(types.Symbol{Val: exp.Val.Elems[0].S}); err == nil {
			if mf, ok := v.(types.MalFunc); ok && mf.GetMacro() {
				r.Violation("macroexpand result still has a macro head", "expansion "+exp.Val.String())
				return
			}
		}
	}
	// evaluate the expansion value in the same (caller's) scope
	via := rg.evalIn(model.ToImpl(exp.Val), scope)
	r.Exec(1)
	if via.Fuel {
		r.Note("skipped: fuel")
		return
	}
	via.Trace = append(append([]V{}, expTrace...), via.Trace...)
	if !sameOutcome(direct, via) {
		r.Violation("macro call differs from evaluating its macroexpand", "call: "+outStr(direct)+"\nvia macroexpand "+exp.Val.String()+": "+outStr(via))
	}
}

func init() {
	vf.Register("C12", func() *vf.Check {
		var rg *c12rig
		var tier string
		setup := func(t string) { tier = t; rg = newC12Rig() }
		dW := func() int {
			if tier == "thorough" {
				return 7
			}
			return 6
		}
		var dg *enum.Grammar
		dgOf := func() *enum.Grammar {
			if dg == nil {
				dg = c12DataGrammar(dW())
			}
			return dg
		}
		qq := &vf.Family{
			Name:     "quasiquote-templates",
			Bounds:   "all templates of weight <=6 (quick) / <=7 (thorough): 9 literal leaves, lists/vectors of 1-3 elements, (unquote E) anywhere, (splice-unquote E) at element positions, E over 7 expressions (two with effects)",
			Setup:    setup,
			N:        func(t string) int64 { tier = t; return dgOf().Count(0, dW()) },
			Describe: func(i int64) string { return form("quasiquote", dgOf().Unrank(0, i)).Lisp() },
			Run: func(i int64, r *vf.Rec) {
				t := dgOf().Unrank(0, i)
				if !qqWellFormed(t) {
					r.Note("skipped: unquote/splice-unquote without exactly one operand (C04's domain)")
					return
				}
				rg.compareWithModel(form("quasiquote", t), nil, r, true)
				// (quasiquoteexpand T) evaluated must give the same as (quasiquote T)
				scope := env.NewSubordinateEnv(rg.base)
				a := rg.evalIn(model.ToImpl(form("quasiquote", t)), scope)
				b := rg.evalIn(model.ToImpl(form("eval", form("quasiquoteexpand", t))), scope)
				r.Exec(2)
				if a.Panic == nil && b.Panic == nil && !a.Fuel && !b.Fuel && !sameOutcome(a, b) {
					r.Violation("quasiquoteexpand disagrees with quasiquote", "quasiquote: "+outStr(a)+"\neval of quasiquoteexpand: "+outStr(b))
				}
			},
		}
		// two templates over the same spliced values: building the second must not disturb the
		// first, nor the values spliced into both
		pW1 := func() int {
			if tier == "thorough" {
				return 5
			}
			return 4
		}
		const pW2 = 4
		// only templates that use a value (contain an unquote or a splice) and are well formed
		var hasUnq func(t V) bool
		hasUnq = func(t V) bool {
			if t.K == model.KList && len(t.Elems) > 0 && t.Elems[0].K == model.KSym && (t.Elems[0].S == "unquote" || t.Elems[0].S == "splice-unquote") {
				return true
			}
			if t.K == model.KList || t.K == model.KVec {
				for _, e := range t.Elems {
					if hasUnq(e) {
						return true
					}
				}
			}
			return false
		}
		pairIdx := map[int][]int64{}
		idxOf := func(w int) []int64 {
			if l, ok := pairIdx[w]; ok {
				return l
			}
			var l []int64
			for i := int64(0); i < dgOf().Count(0, w); i++ {
				if t := dgOf().Unrank(0, i); hasUnq(t) && qqWellFormed(t) {
					l = append(l, i)
				}
			}
			pairIdx[w] = l
			return l
		}
		pairOf := func(i int64) (V, V) {
			l1, l2 := idxOf(pW1()), idxOf(pW2)
			n := int64(len(l2))
			return dgOf().Unrank(0, l1[i/n]), dgOf().Unrank(0, l2[i%n])
		}
		pairProg := func(i int64) V {
			t1, t2 := pairOf(i)
			return form("let", model.Vec(sym("l"), form("quote", model.List(model.Int(0), model.Int(1), model.Int(2))), sym("v"), model.Vec(model.Int(4), model.Int(5), model.Int(6))),
				form("vector", form("quasiquote", t1), form("quasiquote", t2), sym("l"), sym("v")))
		}
		pairs := &vf.Family{
			Name:     "template-pairs",
			Bounds:   "(let [l '(0 1 2) v [4 5 6]] (vector `T1 `T2 l v)) for every ordered pair of well-formed templates of the same grammar that contain an unquote or a splice, T1 of weight <=4 (quick) / <=5 (thorough) and T2 of weight <=4: the spliced values have spare capacity in their backing arrays, both results and both spliced values are looked at afterwards",
			Setup:    setup,
			N:        func(t string) int64 { tier = t; return int64(len(idxOf(pW1()))) * int64(len(idxOf(pW2))) },
			Describe: func(i int64) string { return pairProg(i).Lisp() },
			Run: func(i int64, r *vf.Rec) {
				t1, t2 := pairOf(i)
				if !qqWellFormed(t1) || !qqWellFormed(t2) {
					r.Note("skipped: unquote/splice-unquote without exactly one operand (C04's domain)")
					return
				}
				rg.compareWithModel(pairProg(i), nil, r, true)
			},
		}
		cW := func() int {
			if tier == "thorough" {
				return 5
			}
			return 4
		}
		var cg *enum.Grammar
		cgOf := func() *enum.Grammar {
			if cg == nil {
				cg = c12CodeGrammar(cW())
			}
			return cg
		}
		var args [][]V
		argsOf := func() [][]V {
			if args == nil {
				n := 2
				if tier == "thorough" {
					n = 3
				}
				args = c12Args(n)
			}
			return args
		}
		macProg := func(i int64) (defs, call, fdefs, fcall V) {
			na := int64(len(argsOf()))
			a := argsOf()[i%na]
			body := form("quasiquote", cgOf().Unrank(0, i/na))
			params := model.Vec(sym("p"), sym("&"), sym("r"))
			// the expander has an effect of its own: it must run once per expansion
			defs = form("defmacro", sym("mac"), form("fn", params, form("t!", model.Int(7)), body))
			call = model.List(append([]V{sym("mac")}, a...)...)
			fdefs = form("def", sym("fun"), form("fn", params, body))
			fcall = model.List(append([]V{sym("fun")}, a...)...)
			return
		}
		mac := &vf.Family{
			Name:     "macros-from-templates",
			Bounds:   "(defmacro mac (fn [p & r] `CT)) for every code template CT of weight <=4 (quick) / <=5 (thorough) over 11 forms and 7 element leaves, applied to every operand tuple of length 1-2 (quick) / 1-3 (thorough) over 7 operands (incl. the macro's own name); the expander logs an effect; same body as an ordinary function; the same macro also defined under the names try and fn (special-form heads)",
			Setup:    setup,
			N:        func(t string) int64 { tier = t; return cgOf().Count(0, cW()) * int64(len(argsOf())) },
			Describe: func(i int64) string { d, c, _, _ := macProg(i); return form("do", d, c).Lisp() },
			Run: func(i int64, r *vf.Rec) {
				d, c, fd, fc := macProg(i)
				rg.compareWithModel(form("do", d, c), nil, r, false)
				rg.macroDiff(d, c, r)
				rg.compareWithModel(form("do", fd, fc), nil, r, false)
				// the same macro under the name of a special form (a macro call is recognised by what its
				// head is bound to, before the special forms are looked at)
				for _, name := range []string{"try", "fn"} {
					ren := func(v V) V {
						out := v
						out.Elems = append([]V{}, v.Elems...)
						return out
					}
					d2, c2 := ren(d), ren(c)
					d2.Elems[1] = sym(name)
					c2.Elems[0] = sym(name)
					rg.compareWithModel(form("do", d2, c2), nil, r, false)
				}
			},
		}
		// one macro call form evaluated twice (the body of a function called twice): every evaluation
		// expands anew, so the expander's effect and the expansion's effects happen twice
		tW := func() int {
			if tier == "thorough" {
				return 4
			}
			return 3
		}
		twice := &vf.Family{
			Name:   "macro-call-sites-evaluated-twice",
			Bounds: "(do (defmacro mac (fn [p & r] (t! 7) `CT)) (def f (fn [] (mac a..))) (list (f) (f))) for every code template CT of weight <=3 (quick) / <=4 (thorough) and every operand tuple of length 1-2, read from text (every form has a source position): result and ordered effects against the definitional interpreter, which expands at every evaluation",
			Setup:  setup,
			N:      func(t string) int64 { tier = t; return cgOf().Count(0, tW()) * int64(len(c12Args(2))) },
			Describe: func(i int64) string {
				na := int64(len(c12Args(2)))
				return form("quasiquote", cgOf().Unrank(0, i/na)).Lisp() + " applied to " + model.List(c12Args(2)[i%na]...).Lisp() + ", call form evaluated twice"
			},
			Run: func(i int64, r *vf.Rec) {
				as := c12Args(2)
				na := int64(len(as))
				body := form("quasiquote", cgOf().Unrank(0, i/na))
				params := model.Vec(sym("p"), sym("&"), sym("r"))
				defs := form("defmacro", sym("mac"), form("fn", params, form("t!", model.Int(7)), body))
				call := model.List(append([]V{sym("mac")}, as[i%na]...)...)
				prog := form("do", defs, form("def", sym("f"), form("fn", model.Vec(), call)), form("list", model.List(sym("f")), model.List(sym("f"))))
				rg.compareWithModel(prog, nil, r, true)
			},
		}
		// a macro value that went through with-meta / the ^ reader macro / a plain def under another name is
		// still that macro: a call through the new name must do what the call through the old name does
		type alias struct{ defs, viaOld, viaNew string }
		aliasCases := []alias{
			{`(do (defmacro un (fn [c a b] (list 'if c b a))) (def un2 (with-meta un {:doc "x"})))`, `(un (t! nil) (t! 1) (t! 2))`, `(un2 (t! nil) (t! 1) (t! 2))`},
			{`(do (defmacro un (fn [c a b] (list 'if c b a))) (def un2 ^{:doc "x"} un))`, `(un false (t! 1) (t! 2))`, `(un2 false (t! 1) (t! 2))`},
			{`(do (defmacro un (fn [c a b] (list 'if c b a))) (def un2 un))`, `(un false (t! 1) (t! 2))`, `(un2 false (t! 1) (t! 2))`},
			{`(def or2 (with-meta or {:inline true}))`, `(or nil (t! 5) (t! 6))`, `(or2 nil (t! 5) (t! 6))`},
			{`(def and2 ^{:inline true} and)`, `(and (t! 1) (t! nil) (t! 3))`, `(and2 (t! 1) (t! nil) (t! 3))`},
			{`(def cond2 (with-meta cond {:k 1}))`, `(cond (t! false) (t! 1) :else (t! 2))`, `(cond2 (t! false) (t! 1) :else (t! 2))`},
			{`(do (defmacro tw (fn [a] (list 'do a a))) (def tw2 (with-meta (with-meta tw {:a 1}) {:b 2})))`, `(tw (t! 1))`, `(tw2 (t! 1))`},
		}
		aliases := &vf.Family{
			Name: "macro-values-under-other-names", Bounds: fmt.Sprintf("%d hand-built cases: a user or library macro re-bound with def, with-meta or the ^ reader macro, called through the old and the new name with effectful operands", len(aliasCases)),
			Setup: setup, InProc: true,
			N:        func(string) int64 { return int64(len(aliasCases)) },
			Describe: func(i int64) string { return aliasCases[i].defs + " " + aliasCases[i].viaNew },
			Run: func(i int64, r *vf.Rec) {
				c := aliasCases[i]
				r.NT()
				scope := env.NewSubordinateEnv(rg.base)
				if o := rg.evalIn(lx.MustRead(c.defs), scope); o.Panic != nil || o.IsErr {
					r.Violation("re-binding a macro value fails", c.defs+": "+outStr(o))
					return
				}
				a := rg.evalIn(lx.MustRead(c.viaOld), scope)
				b := rg.evalIn(lx.MustRead(c.viaNew), scope)
				r.Exec(2)
				if !sameOutcome(a, b) {
					r.Violation("a macro value bound under another name (with metadata) no longer behaves as that macro", c.defs+"\n"+c.viaOld+": "+outStr(a)+"\n"+c.viaNew+": "+outStr(b))
				}
			},
		}
		// hand-built families: recursive macros, macros expanding to macros, library macros
		type fixed struct{ defs, call string }
		fixedCases := []fixed{
			{`(defmacro cd (fn [n] (if (< n 1) (quote (t! 0)) (list 'cd (- n 1)))))`, `(cd 3)`},
			{`(do (defmacro m1 (fn [a] (list 't! a))) (defmacro m2 (fn [& xs] (cons 'm1 xs))))`, `(m2 4)`},
			{`(do (defmacro m1 (fn [a] (list 'do a a))) (defmacro m2 (fn [a] (list 'm1 (list 'm1 a)))))`, `(m2 (t! 1))`},
			{`(defmacro unless (fn [c a b] (list 'if c b a)))`, `(unless (t! nil) (t! 1) (t! 2))`},
			{`(def q 1)`, `(cond (t! false) (t! 1) (t! 2) (t! 3) :else (t! 4))`},
			{`(def q 1)`, `(or (t! nil) (t! false) (t! 3) (t! 4))`},
			{`(def q 1)`, `(and (t! 1) (t! 2) (t! nil) (t! 4))`},
			{`(def q 1)`, `(-> (t! 1) (+ (t! 2)) (list (t! 3)))`},
			{`(def q 1)`, `(->> (t! 1) (+ (t! 2)) (list (t! 3)))`},
			{`(defmacro sw (fn [a b] (list b a)))`, `(sw (t! 1) t!)`},
			{`(defmacro idm (fn [a] a))`, `(idm (idm (t! 5)))`},
			{`(do (defmacro mm (fn [a] (list 'quote a))) (def ff (fn [a] (list 'quote a))))`, `(list (mm (t! 1)) (ff (t! 2)))`},
			{`(defmacro shadow (fn [a] (list 'let ['y 9] a)))`, `(shadow (+ y 1))`},
			{`(defmacro tw (fn [a] (list 'try a '(catch e (t! e)))))`, `(tw (throw 8))`},
		}
		fx := &vf.Family{
			Name: "macro-families", Bounds: fmt.Sprintf("%d hand-built recursive / nested / library macro calls (cond, or, and, ->, ->>)", len(fixedCases)),
			Setup: setup, InProc: true,
			N:        func(string) int64 { return int64(len(fixedCases)) },
			Describe: func(i int64) string { return fixedCases[i].defs + " " + fixedCases[i].call },
			Run: func(i int64, r *vf.Rec) {
				c := fixedCases[i]
				rg.macroDiff(model.FromImpl(lx.MustRead(c.defs)), model.FromImpl(lx.MustRead(c.call)), r)
				r.NT()
			},
		}
		return &vf.Check{
			ID: "C12", Level: "model_checking",
			Rule:        "every quasiquote template of the bounded grammar is compared with a substitution computed on the model ADT (and with eval of quasiquoteexpand); every macro built from a bounded code template x every operand tuple is compared with the definitional interpreter, with evaluation of its own macroexpand result (head no longer a macro), and with the same body as an ordinary function; non-trivial = has effects",
			Assumptions: []string{"unquote/splice-unquote with a wrong operand count are malformed (C04's domain) and skipped", "splicing a non-sequence is unspecified and skipped"},
			Families:    []*vf.Family{qq, pairs, mac, twice, aliases, fx},
		}
	})
}
