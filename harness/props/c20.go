package props

import (
	"context"
	"errors"
	"fmt"
	"github.com/jig/lisp/lisperror"
	"reflect"
	"runtime"
	"strings"

	"github.com/jig/lisp/env"
	"github.com/jig/lisp/lib/call"
	"github.com/jig/lisp/types"

	dotpkg "verifharness/internal/dot.pkg"
	"verifharness/internal/lx"
	"verifharness/internal/model"
	"verifharness/internal/vf"
)

type c20Entry struct {
	Desc string
	Ctx  bool
	Fn   any
}

const (
	c20ok = iota
	c20err
	c20panicErr
	c20panicStr
	c20panicWrap // panics with a Go error that itself wraps a lisp error (a callback's throw, passed on)
	c20errWrap   // returns such an error
	c20panicLisp // panics with a lisp error itself (re-raising what a lisp callback threw)
	c20panicInt  // panics with a value that is no error: an int
	c20panicVec  // ... a lisp vector
	c20panicRun  // a fault raised by the Go runtime (index out of range)
)

var c20PanicVec = types.Vector{Val: []types.MalType{1, "two"}}

// the lisp error a bound function re-raises with panic(err)
var c20LispErr = lisperror.NewLispError("thrown by a callback, re-raised", types.NewCursorFile("callback.lisp"))

// a Go error of the function's own that wraps a lisp error: what a bound function does when a lisp
// callback it called threw and it passes the failure on with its own context
var c20WrapErr = fmt.Errorf("go side gave up: %w", lisperror.NewLispError("thrown by a callback", types.NewCursorFile("callback.lisp")))

type c20key struct{}

var c20State struct {
	entered int
	idx     int
	args    []any
	marker  any
	mode    int
	onEnter func() // run when a table function is entered (ends the evaluation's context while the function runs)
}

func c20anys[T any](xs []T) []any {
	out := make([]any, len(xs))
	for i, x := range xs {
		out[i] = x
	}
	return out
}

func c20enter(idx int, ctx context.Context, fixed []any, rest []any) int {
	c20State.entered++
	if c20State.onEnter != nil {
		c20State.onEnter()
	}
	c20State.idx = idx
	c20State.args = append(append([]any{}, fixed...), rest...)
	c20State.marker = nil
	if ctx != nil {
		c20State.marker = ctx.Value(c20key{})
	}
	switch c20State.mode {
	case c20panicErr:
		panic(ErrPan)
	case c20panicStr:
		panic("pans")
	case c20panicWrap:
		panic(c20WrapErr)
	case c20panicLisp:
		panic(c20LispErr)
	case c20panicInt:
		panic(42)
	case c20panicVec:
		panic(c20PanicVec)
	case c20panicRun:
		var none []int
		_ = none[c20State.entered+3]
	}
	return c20State.mode
}

func c20retErr(mode int) error {
	if mode == c20errWrap {
		return c20WrapErr
	}
	if mode == c20err {
		return ErrBoom
	}
	return nil
}
func c20retVal(mode int) (types.MalType, error) {
	if mode == c20errWrap {
		return nil, c20WrapErr
	}
	if mode == c20err {
		return nil, ErrBoom
	}
	return "res", nil
}
func c20retInt(mode int) (int, error) {
	if mode == c20errWrap {
		return 0, c20WrapErr
	}
	if mode == c20err {
		return 0, ErrBoom
	}
	return 42, nil
}

// Verif_Named_Fn is a named function of a package whose import path has no dot.
func Verif_Named_Fn(a types.MalType) (types.MalType, error) { c20State.entered++; return a, nil }

// PlainName is a second named function.
func PlainName() (types.MalType, error) { c20State.entered++; return 1, nil }

type c20bounds struct {
	kind int // 0 none, 1 (m), 2 (m,M)
	m, M int
}

func (b c20bounds) String() string {
	switch b.kind {
	case 1:
		return fmt.Sprintf("bounds(%d)", b.m)
	case 2:
		return fmt.Sprintf("bounds(%d,%d)", b.m, b.M)
	}
	return "derived-bounds"
}
func (b c20bounds) args() []int {
	switch b.kind {
	case 1:
		return []int{b.m}
	case 2:
		return []int{b.m, b.M}
	}
	return nil
}

var c20ArgVals = []types.MalType{nil, 5, "s", types.List{Val: []types.MalType{1}}, types.Vector{Val: []types.MalType{2}}, ErrBoom, 1.5}
var c20ArgNames = []string{"nil", "5", `"s"`, "(1)", "[2]", "<go error>", "1.5"}

type c20config struct {
	fn     int
	b      c20bounds
	viaOvr bool
}

func c20Configs() []c20config {
	var out []c20config
	for i, e := range c20Table {
		t := reflect.TypeOf(e.Fn)
		lisp := t.NumIn()
		if e.Ctx {
			lisp--
		}
		bs := []c20bounds{{}}
		if t.IsVariadic() {
			fixed := lisp - 1
			for m := fixed; m <= 3; m++ {
				bs = append(bs, c20bounds{1, m, 0})
				for M := m; M <= 3; M++ {
					bs = append(bs, c20bounds{2, m, M})
				}
			}
		}
		for _, b := range bs {
			out = append(out, c20config{i, b, false}, c20config{i, b, true})
		}
	}
	return out
}

// expected contract, computed from the reflect.Type alone
func c20Expect(e c20Entry, b c20bounds, args []types.MalType) (enter bool) {
	t := reflect.TypeOf(e.Fn)
	first := 0
	if e.Ctx {
		first = 1
	}
	lisp := t.NumIn() - first
	n := len(args)
	if t.IsVariadic() {
		fixed := lisp - 1
		switch b.kind {
		case 0:
			if n < fixed {
				return false
			}
		case 1:
			if n < b.m {
				return false
			}
		case 2:
			if n < b.m || n > b.M {
				return false
			}
		}
	} else if n != lisp {
		return false
	}
	empty := reflect.TypeOf((*types.MalType)(nil)).Elem()
	for i, a := range args {
		var pt reflect.Type
		if t.IsVariadic() && i >= lisp-1 {
			pt = t.In(t.NumIn() - 1).Elem()
		} else {
			pt = t.In(first + i)
		}
		if a == nil {
			if pt != empty {
				return false
			}
			continue
		}
		if !reflect.TypeOf(a).AssignableTo(pt) {
			return false
		}
	}
	return true
}

func init() {
	vf.Register("C20", func() *vf.Check {
		cfgs := c20Configs()
		maxLen := 4
		if vf.Tier == "thorough" {
			// one more argument, two more kinds of value (bool, hash map)
			maxLen = 5
			if len(c20ArgVals) == 7 {
				c20ArgVals = append(c20ArgVals, true, types.HashMap{Val: map[string]types.MalType{"k": 1}})
				c20ArgNames = append(c20ArgNames, "true", `{"k" 1}`)
			}
		}
		nArgs := seqSpace{len(c20ArgVals), maxLen}
		descr := func(i int64) string {
			c := cfgs[i]
			ep := "call.Call"
			if c.viaOvr {
				ep = "call.CallOverrideFN"
			}
			return fmt.Sprintf("%s(func(%s), %s) x all argument lists of length 0..%d over {%s}", ep, c20Table[c.fn].Desc, c.b, maxLen, strings.Join(c20ArgNames, " "))
		}
		shape := func(c c20config) string {
			e := c20Table[c.fn]
			t := reflect.TypeOf(e.Fn)
			s := []string{}
			if e.Ctx {
				s = append(s, "ctx")
			}
			if t.IsVariadic() {
				s = append(s, "variadic")
			} else {
				s = append(s, "fixed")
			}
			s = append(s, []string{"derived-bounds", "declared-min", "declared-min-max"}[c.b.kind])
			return strings.Join(s, "/")
		}
		contract := &vf.Family{
			Name:     "signature-x-bounds-x-args",
			Bounds:   fmt.Sprintf("%d generated signatures (ctx or not; 0-2 fixed parameters of types int/string/MalType/List/Vector/error; variadic none/...MalType/...int/...error; results none/error/(MalType,error)/(int,error)) x declared bounds none/(m)/(m,M) for fixed<=m<=M<=3 x both registration entry points; each called with every argument list of length 0..4 over {nil, int, string, list, vector, Go error, float} (thorough: length 0..5, also a bool and a hash map); result/err/panic modes on a legal call", len(c20Table)),
			N:        func(string) int64 { return int64(len(cfgs)) },
			Describe: descr,
			Run: func(i int64, r *vf.Rec) {
				c := cfgs[i]
				e := c20Table[c.fn]
				ns := env.NewEnv()
				before := map[string]bool{}
				name := "ovr-fn"
				var regPanic *lx.Panic
				if c.viaOvr {
					regPanic = lx.Guard(func() { call.CallOverrideFN(ns, name, e.Fn, c.b.args()...) })
				} else {
					regPanic = lx.Guard(func() { call.Call(ns, e.Fn, c.b.args()...) })
				}
				if regPanic != nil {
					r.Violation("registration panics for a legal (signature, bounds): "+shape(c), regPanic.String())
					return
				}
				if !c.viaOvr {
					// the derived name: the one new symbol (besides _PACKAGES_)
					name = ""
					for _, s := range ns.Symbols(nil, "") {
						if string(s) != "_PACKAGES_" && !before[string(s)] {
							name = string(s)
						}
					}
					if name == "" || strings.ToLower(name) != name || strings.Contains(name, "_") {
						r.Violation("registered name is not the hyphenated lower-case function name", "got "+name)
						return
					}
				}
				marker := &struct{ x int }{7}
				ctx := context.WithValue(context.Background(), c20key{}, marker)
				total := nArgs.size()
				var firstLegal []types.MalType
				haveLegal := false
				for ai := int64(0); ai < total; ai++ {
					d := nArgs.unrank(ai)
					args := make([]types.MalType, len(d))
					names := make([]string, len(d))
					el := []types.MalType{types.Symbol{Val: name}}
					for k, x := range d {
						args[k] = c20ArgVals[x]
						names[k] = c20ArgNames[x]
						el = append(el, q(c20ArgVals[x]))
					}
					want := c20Expect(e, c.b, args)
					c20State.entered, c20State.mode, c20State.args = 0, c20ok, nil
					res, err, p := lx.Eval(ctx, types.List{Val: el}, ns)
					r.Exec(1)
					callTxt := fmt.Sprintf("(%s %s) on func(%s) %s", name, strings.Join(names, " "), e.Desc, c.b)
					if p != nil {
						r.ViolationCase("call panics: "+panicSig(p), callTxt, p.String())
						return
					}
					entered := c20State.entered > 0
					switch {
					case entered && !want:
						r.ViolationCase("function entered outside its contract: "+shape(c), callTxt, fmt.Sprintf("entered with %d arguments", len(args)))
						return
					case !entered && want:
						r.ViolationCase("function not entered although count and types fit: "+shape(c), callTxt, fmt.Sprintf("err=%v", err))
						return
					case !entered && err == nil:
						r.ViolationCase("call outside the contract returned no error: "+shape(c), callTxt, fmt.Sprintf("value %v", res))
						return
					}
					if !entered {
						r.Outcome("rejected")
						continue
					}
					r.Outcome("entered")
					if c20State.entered != 1 {
						r.ViolationCase("function entered more than once", callTxt, fmt.Sprint(c20State.entered))
						return
					}
					if !haveLegal {
						firstLegal, haveLegal = args, true
					}
					// received exactly the lisp arguments
					if len(c20State.args) != len(args) {
						r.ViolationCase("function received a different number of arguments: "+shape(c), callTxt, fmt.Sprintf("got %v", c20State.args))
						return
					}
					for k := range args {
						if !reflect.DeepEqual(c20State.args[k], args[k]) {
							r.ViolationCase("function received different arguments: "+shape(c), callTxt, fmt.Sprintf("argument %d: got %#v want %#v", k, c20State.args[k], args[k]))
							return
						}
					}
					if e.Ctx && c20State.marker != any(marker) {
						r.ViolationCase("evaluation context not injected: "+shape(c), callTxt, fmt.Sprintf("ctx marker %v", c20State.marker))
						return
					}
					// result mapping
					t := reflect.TypeOf(e.Fn)
					var wantRes types.MalType
					if t.NumOut() == 2 {
						if t.Out(0).Kind() == reflect.Int {
							wantRes = 42
						} else {
							wantRes = "res"
						}
					}
					if err != nil || !reflect.DeepEqual(res, wantRes) {
						r.ViolationCase("result not mapped by convention: "+shape(c), callTxt, fmt.Sprintf("got (%v, %v) want (%v, nil)", res, err, wantRes))
						return
					}
				}
				if !haveLegal {
					r.Note("no legal argument list within the bound")
					return
				}
				r.NT()
				// the same legal call made directly on the registered function value under a context that has
				// already ended (how map, apply, swap! or an embedder reach it after a deadline): the contract
				// does not depend on the context, the function is entered with that very context
				if fv, gerr := ns.Get(types.Symbol{Val: name}); gerr == nil {
					if f, ok := fv.(types.Func); ok {
						dead, cancel := context.WithCancel(ctx)
						cancel()
						c20State.entered, c20State.mode, c20State.args = 0, c20ok, nil
						var derr error
						pn := lx.Guard(func() { _, derr = f.Fn(dead, firstLegal) })
						r.Exec(1)
						switch {
						case pn != nil:
							r.Violation("call under an ended context panics: "+shape(c), pn.String())
							return
						case c20State.entered != 1:
							r.Violation("function not entered although count and types fit (context already ended): "+shape(c), fmt.Sprintf("entered %d times, err=%v", c20State.entered, derr))
							return
						case e.Ctx && c20State.marker != any(marker):
							r.Violation("evaluation context not injected (context already ended): "+shape(c), fmt.Sprint(c20State.marker))
							return
						}
					}
				}
				// error / panic modes on one legal call
				el := []types.MalType{types.Symbol{Val: name}}
				for _, a := range firstLegal {
					el = append(el, q(a))
				}
				t := reflect.TypeOf(e.Fn)
				for _, mode := range []int{c20err, c20panicErr, c20panicStr, c20panicWrap, c20errWrap, c20panicLisp, c20panicInt, c20panicVec, c20panicRun} {
					if (mode == c20err || mode == c20errWrap) && t.NumOut() == 0 {
						continue
					}
					c20State.entered, c20State.mode = 0, mode
					_, err, p := lx.Eval(ctx, types.List{Val: el}, ns)
					r.Exec(1)
					what := []string{"", "returned error", "panic(error)", "panic(string)", "panic(Go error wrapping a lisp error)", "returned Go error wrapping a lisp error", "panic(lisp error)", "panic(int)", "panic(lisp vector)", "runtime fault"}[mode]
					if p != nil {
						r.Violation("panic inside a bound function escapes: "+what, p.String())
						break
					}
					if err == nil {
						r.Violation(what+" inside a bound function is lost", "no error returned")
						break
					}
					if mode == c20err && !errors.Is(err, ErrBoom) {
						r.Violation("returned Go error no longer reachable with errors.Is", err.Error())
						break
					}
					if mode == c20panicErr && !errors.Is(err, ErrPan) {
						r.Violation("panicked Go error no longer reachable with errors.Is", err.Error())
						break
					}
					if mode == c20panicLisp {
						// the original (the lisp error and the value it carries) is still in the chain
						var inner lisperror.LispError
						found := false
						for e := err; e != nil; e = errors.Unwrap(e) {
							if le, ok := e.(lisperror.LispError); ok && le.ErrorValue() == c20LispErr.ErrorValue() {
								inner, found = le, true
							}
						}
						_ = inner
						if !found {
							r.Violation(what+": the panicked lisp error and its value are no longer reachable in the error chain", err.Error())
							break
						}
					}
					if mode == c20panicStr || mode == c20panicInt || mode == c20panicVec {
						// the original value is still carried by a lisp error of the chain
						var orig any = "pans"
						if mode == c20panicInt {
							orig = 42
						} else if mode == c20panicVec {
							orig = c20PanicVec
						}
						found := false
						for e := err; e != nil && !found; e = errors.Unwrap(e) {
							if le, ok := e.(interface{ ErrorValue() types.MalType }); ok && reflect.DeepEqual(le.ErrorValue(), orig) {
								found = true
							}
						}
						if !found {
							r.Violation(what+": the panic value is no longer carried by the error", fmt.Sprintf("%T %v", err, err))
							break
						}
					}
					if mode == c20panicRun {
						var re runtime.Error
						if !errors.As(err, &re) {
							r.Violation(what+": the runtime's error is no longer reachable with errors.As", fmt.Sprintf("%T %v", err, err))
							break
						}
					}
					if (mode == c20panicWrap || mode == c20errWrap) && !errors.Is(err, c20WrapErr) {
						r.Violation(what+": the function's own Go error is no longer reachable with errors.Is", err.Error())
						break
					}
					// catchable
					wrapped := types.List{Val: []types.MalType{types.Symbol{Val: "try"}, types.List{Val: el},
						types.List{Val: []types.MalType{types.Symbol{Val: "catch"}, types.Symbol{Val: "e"}, 99}}}}
					c20State.entered = 0
					res2, err2, p2 := lx.Eval(ctx, wrapped, ns)
					if p2 != nil || err2 != nil || res2 != 99 {
						r.Violation(what+" inside a bound function is not catchable", fmt.Sprintf("res=%v err=%v panic=%v", res2, err2, p2))
						break
					}
				}
				// the same failures when the evaluation's context ends while the function runs (the function's
				// own error or panic value is what the caller gets to see; the context's end does not replace it)
				for _, mode := range []int{c20err, c20panicErr, c20errWrap, c20panicWrap} {
					if (mode == c20err || mode == c20errWrap) && t.NumOut() == 0 {
						continue
					}
					live, cancel := context.WithCancel(ctx)
					c20State.entered, c20State.mode = 0, mode
					c20State.onEnter = cancel
					_, err, p := lx.Eval(live, types.List{Val: el}, ns)
					c20State.onEnter = nil
					cancel()
					r.Exec(1)
					what := map[int]string{c20err: "returned error", c20panicErr: "panic(error)", c20errWrap: "returned Go error wrapping a lisp error", c20panicWrap: "panic(Go error wrapping a lisp error)"}[mode] + ", context ended while the function ran"
					want := map[int]error{c20err: ErrBoom, c20panicErr: ErrPan, c20errWrap: c20WrapErr, c20panicWrap: c20WrapErr}[mode]
					if p != nil {
						r.Violation("panic inside a bound function escapes: "+what, p.String())
						break
					}
					if c20State.entered != 1 {
						r.Violation("function not entered exactly once: "+what, fmt.Sprint(c20State.entered))
						break
					}
					if err == nil {
						r.Violation(what+" inside a bound function is lost", "no error returned")
						break
					}
					if !errors.Is(err, want) {
						r.Violation(what+": the function's own Go error is no longer reachable with errors.Is", err.Error())
						break
					}
				}
				c20State.mode = c20ok
			},
		}
		// naming and package-path family
		type nameCase struct {
			desc string
			reg  func(ns types.EnvType)
			want string
		}
		nameCases := []nameCase{
			{"call.Call(named function, dotless package path)", func(ns types.EnvType) { call.Call(ns, Verif_Named_Fn) }, "verif-named-fn"},
			{"call.Call(named function PlainName, dotless package path)", func(ns types.EnvType) { call.Call(ns, PlainName) }, "plainname"},
			{"call.CallOverrideFN(named function, dotless package path)", func(ns types.EnvType) { call.CallOverrideFN(ns, "my-name", Verif_Named_Fn) }, "my-name"},
			{"call.Call(named function, dotted package path)", func(ns types.EnvType) { call.Call(ns, dotpkg.Verif_Named_Fn) }, "verif-named-fn"},
			{"call.Call(named function PlainName, dotted package path)", func(ns types.EnvType) { call.Call(ns, dotpkg.PlainName) }, "plainname"},
			{"call.CallOverrideFN(named function, dotted package path)", func(ns types.EnvType) { call.CallOverrideFN(ns, "my-name", dotpkg.Verif_Named_Fn) }, "my-name"},
			{"call.CallOverrideFN(closure, dotless package path)", func(ns types.EnvType) {
				call.CallOverrideFN(ns, "my-name", func(a types.MalType) (types.MalType, error) { c20State.entered++; return a, nil })
			}, "my-name"},
			{"call.CallOverrideFN(named function PlainName, dotless package path)", func(ns types.EnvType) { call.CallOverrideFN(ns, "other", PlainName) }, "other"},
		}
		naming := &vf.Family{
			Name: "names-and-package-paths", InProc: true,
			Bounds:   fmt.Sprintf("%d registrations: named functions and closures x both entry points x importing package path with / without a dot", len(nameCases)),
			N:        func(string) int64 { return int64(len(nameCases)) },
			Describe: func(i int64) string { return nameCases[i].desc },
			Run: func(i int64, r *vf.Rec) {
				nc := nameCases[i]
				ns := env.NewEnv()
				r.NT()
				if p := lx.Guard(func() { nc.reg(ns) }); p != nil {
					r.Violation("registration panics: "+panicSig(p), nc.desc+": "+p.String())
					return
				}
				v, err := ns.Get(types.Symbol{Val: nc.want})
				if err != nil {
					var have []string
					for _, s := range ns.Symbols(nil, "") {
						have = append(have, string(s))
					}
					r.Violation("function not registered under its hyphenated lower-case name", fmt.Sprintf("%s: expected symbol %q, environment has %v", nc.desc, nc.want, have))
					return
				}
				if _, ok := v.(types.Func); !ok {
					r.Violation("registered value is not a function", fmt.Sprintf("%T", v))
				}
				r.Exec(1)
			},
		}
		// several closures made by one function literal (one code pointer, different captured state),
		// registered under the same name and bounds in different environments, then called in every order:
		// each environment's call must enter the closure registered there
		type cloCase struct {
			viaOvr bool
			ctx    bool
			order  []int
		}
		var cloCases []cloCase
		for _, ovr := range []bool{false, true} {
			for _, cx := range []bool{false, true} {
				for _, o := range [][]int{{0, 1, 2}, {2, 1, 0}, {1, 0, 2, 0, 1}, {0, 0, 1, 1}} {
					cloCases = append(cloCases, cloCase{ovr, cx, o})
				}
			}
		}
		closures := &vf.Family{
			Name: "closures-of-one-literal", InProc: true,
			Bounds: fmt.Sprintf("%d cases: 3 closures made by one function literal (with / without a context parameter) registered under one name through Call / CallOverrideFN in 3 fresh environments, then called in 4 orders: every call must enter the closure of its own environment", len(cloCases)),
			N:      func(string) int64 { return int64(len(cloCases)) },
			Describe: func(i int64) string {
				c := cloCases[i]
				return fmt.Sprintf("override=%v ctx=%v call order %v", c.viaOvr, c.ctx, c.order)
			},
			Run: func(i int64, r *vf.Rec) {
				cc := cloCases[i]
				r.NT()
				var envs []types.EnvType
				name := "clo"
				for id := 0; id < 3; id++ {
					ns := env.NewEnv()
					var f any = c20MakeClosure(id)
					if cc.ctx {
						f = c20MakeCtxClosure(id)
					}
					if p := lx.Guard(func() {
						if cc.viaOvr {
							call.CallOverrideFN(ns, name, f)
						} else {
							call.Call(ns, f)
						}
					}); p != nil {
						r.Violation("registration panics: "+panicSig(p), p.String())
						return
					}
					if !cc.viaOvr {
						for _, sy := range ns.Symbols(nil, "") {
							if string(sy) != "_PACKAGES_" {
								name = string(sy)
							}
						}
					}
					envs = append(envs, ns)
				}
				for _, id := range cc.order {
					res, err, p := lx.Eval(context.Background(), types.List{Val: []types.MalType{types.Symbol{Val: name}, 10}}, envs[id])
					r.Exec(1)
					if p != nil || err != nil || res != 10+id {
						r.Violation("a call does not enter the Go function registered in its environment", fmt.Sprintf("environment %d: (%s 10) = %v err=%v panic=%v, want %d", id, name, res, err, p, 10+id))
						return
					}
				}
			},
		}
		_ = model.Nil
		return &vf.Check{
			RacePass: c20RacePass,
			ID:       "C20", Level: "model_checking",
			Rule:        "every (signature, declared bounds, entry point) configuration is registered through the real binder and called through EVAL with every argument list up to length 4; whether the Go function must be entered is computed from its reflect.Type alone (count within declared or derived bounds, every argument assignable, nil only to empty-interface parameters) and compared with what the instrumented function recorded (entered, arguments, context marker), plus result/err/panic conventions; non-trivial = configuration with at least one legal call",
			Assumptions: []string{"declared bounds count lisp arguments (as the comments at the call.Call(env, apply, 2) sites say), not the injected context", "declared bounds below the number of fixed parameters are not generated (inconsistent declaration)"},
			Families:    []*vf.Family{contract, naming, closures},
		}
	})
}

// one function literal each, called several times: the closures share their code pointer
//
//go:noinline
func c20MakeClosure(id int) func(a int) (types.MalType, error) {
	return func(a int) (types.MalType, error) { return a + id, nil }
}

//go:noinline
func c20MakeCtxClosure(id int) func(ctx context.Context, a int) (types.MalType, error) {
	return func(ctx context.Context, a int) (types.MalType, error) { return a + id, nil }
}
