// Package vf is the small framework shared by all checks: a check is a list of
// Families; a Family is a finite, index-addressable space of cases; every case of
// every family is executed (in worker subprocesses, strided by index) against the
// real code and judged by the family's oracle. Nothing is sampled.
package vf

import (
	"bufio"
	"encoding/binary"
	"encoding/json"
	"fmt"
	"os"
	"os/exec"
	"path/filepath"
	"runtime"
	"sort"
	"strconv"
	"strings"
	"sync"
	"sync/atomic"
	"time"
)

// Family is one exhaustively enumerated space of cases.
type Family struct {
	Name string
	// N returns the number of cases for the tier. Called once per process.
	N func(tier string) int64
	// Run executes case i and reports through r. It must be deterministic in i.
	Run func(i int64, r *Rec)
	// Describe renders case i for samples / replay files.
	Describe func(i int64) string
	// Timeout is the per-case watchdog (0 = 60s).
	Timeout time.Duration
	// Bounds documents the alphabet/bound of this family (goes to evidence).
	Bounds string
	// InProc runs the family inside the parent (for tiny families, or ones that
	// fork their own children).
	InProc bool
	// Workers overrides the number of worker processes (0 = all cores).
	Workers int
	// Setup is called once per process before the first Run.
	Setup func(tier string)
}

// Check is everything registered for one property.
type Check struct {
	ID          string
	Level       string // evidence level
	Rule        string // how cases are generated and what non-trivial means
	Assumptions []string
	Families    []*Family
	// Post runs in the parent after all families (e.g. auxiliary passes).
	Post func(p *Parent)
	// RacePass runs the check's scenario bodies free-running (no scheduler); it is executed
	// in a separate binary built with -race, whose reports the parent parses.
	RacePass func(tier string)
}

// Violation is one oracle failure.
type Violation struct {
	Family string `json:"family"`
	Index  int64  `json:"index"`
	Sig    string `json:"signature"`
	Case   string `json:"case"`
	Detail string `json:"detail"`
}

// Rec collects what one process observed.
type Rec struct {
	fam         *Family
	idx         int64
	Cases       int64            `json:"cases"`
	Execs       int64            `json:"execs"`
	Nontrivial  int64            `json:"nontrivial"`
	Outcomes    map[string]int64 `json:"outcomes"`
	SigCount    map[string]int64 `json:"sig_count"`
	Violations  []Violation      `json:"violations"`
	Samples     []string         `json:"samples"`
	Notes       map[string]int64 `json:"notes"`
	Caps        []string         `json:"caps"`
	ntThis      bool
	perSigLimit int
}

func newRec() *Rec {
	return &Rec{Outcomes: map[string]int64{}, SigCount: map[string]int64{}, Notes: map[string]int64{}, perSigLimit: 3}
}

// Exec counts n executions of real code for the current case.
func (r *Rec) Exec(n int64) { r.Execs += n }

// NT marks the current case as non-trivial by the check's rule.
func (r *Rec) NT() {
	if !r.ntThis {
		r.ntThis = true
		r.Nontrivial++
	}
}

// Outcome adds to the outcome histogram.
func (r *Rec) Outcome(kind string) { r.Outcomes[kind]++ }

// Note counts an informational event.
func (r *Rec) Note(kind string) { r.Notes[kind]++ }

// Cap records that a cap was hit.
func (r *Rec) Cap(s string) {
	for _, c := range r.Caps {
		if c == s {
			return
		}
	}
	r.Caps = append(r.Caps, s)
}

// Violation reports an oracle failure for the current case.
func (r *Rec) Violation(sig, detail string) {
	r.ViolationCase(sig, r.fam.Describe(r.idx), detail)
}

// ViolationCase is Violation with an explicit case rendering (for sub-cases).
func (r *Rec) ViolationCase(sig, cas, detail string) {
	r.SigCount[sig]++
	if r.SigCount[sig] <= int64(r.perSigLimit) {
		if len(detail) > 4000 {
			detail = detail[:4000] + "…"
		}
		r.Violations = append(r.Violations, Violation{Family: r.fam.Name, Index: r.idx, Sig: sig, Case: cas, Detail: detail})
	}
}

// ---------------------------------------------------------------------------

var registry = map[string]func() *Check{}

func Register(id string, f func() *Check) { registry[id] = f }

func IDs() []string {
	var ids []string
	for k := range registry {
		ids = append(ids, k)
	}
	sort.Strings(ids)
	return ids
}

// Env knobs.
var (
	VerifDir = envOr("VERIF_DIR", "/verif")
	RepoDir  = envOr("VERIF_REPO", "/repo")
)

func envOr(k, d string) string {
	if v := os.Getenv(k); v != "" {
		return v
	}
	return d
}

// Parent is the coordinating process state.
type Parent struct {
	Check *Check
	Tier  string
	Seed  int64
	Total *Rec
	Extra map[string]any // extra coverage keys
	start time.Time
	// Deadline for the whole check; when exceeded families stop and exhaustive=false.
	Deadline   time.Time
	exhaustive bool
	famStats   []map[string]any
	internal   []string
}

// Main is the entry point used by cmd/vcheck.
func Main(args []string) int {
	if len(args) < 1 {
		fmt.Fprintln(os.Stderr, "usage: vcheck <id> [--tier quick|thorough] [--replay f] | list")
		return 2
	}
	if args[0] == "list" {
		fmt.Println(strings.Join(IDs(), " "))
		return 0
	}
	id := args[0]
	mk, ok := registry[id]
	if !ok {
		fmt.Fprintf(os.Stderr, "unknown check %q\n", id)
		return 2
	}
	tier := envOr("VERIF_TIER", "quick")
	var worker, replay, famOnly string
	var one int64 = -1
	racepass := false
	for i := 1; i < len(args); i++ {
		switch args[i] {
		case "--tier":
			i++
			tier = args[i]
		case "--worker":
			i++
			worker = args[i]
		case "--replay":
			i++
			replay = args[i]
		case "--family":
			i++
			famOnly = args[i]
		case "--case":
			i++
			one, _ = strconv.ParseInt(args[i], 10, 64)
		case "--racepass":
			racepass = true
		}
	}
	seed, _ := strconv.ParseInt(os.Getenv("VERIF_SEED"), 10, 64)
	Tier = tier
	chk := mk()
	if racepass {
		if chk.RacePass == nil {
			return 0
		}
		chk.RacePass(tier)
		fmt.Fprintln(os.Stderr, "RACEPASS-DONE")
		return 0
	}
	if worker != "" {
		return runWorker(chk, tier, worker)
	}
	if replay != "" {
		return runReplay(chk, tier, replay)
	}
	if one >= 0 {
		return runOne(chk, tier, famOnly, one)
	}
	p := &Parent{Check: chk, Tier: tier, Seed: seed, Total: newRec(), Extra: map[string]any{}, start: time.Now(), exhaustive: true}
	budget := 25 * time.Minute
	if tier == "thorough" {
		budget = 3 * time.Hour
	}
	if v := os.Getenv("VERIF_BUDGET_S"); v != "" {
		n, _ := strconv.Atoi(v)
		budget = time.Duration(n) * time.Second
	}
	p.Deadline = p.start.Add(budget)
	return p.run(famOnly)
}

// Tier is the tier of this run ("quick" or "thorough"), known before a check is constructed.
var Tier = "quick"

func findFam(chk *Check, name string) *Family {
	for _, f := range chk.Families {
		if f.Name == name {
			return f
		}
	}
	return nil
}

func runOne(chk *Check, tier, fam string, i int64) int {
	f := findFam(chk, fam)
	if f == nil {
		if len(chk.Families) == 0 {
			return 2
		}
		f = chk.Families[0]
	}
	if f.Setup != nil {
		f.Setup(tier)
	}
	r := newRec()
	r.fam, r.idx = f, i
	r.perSigLimit = 100
	fmt.Printf("family=%s index=%d\ncase: %s\n", f.Name, i, f.Describe(i))
	f.Run(i, r)
	b, _ := json.MarshalIndent(r, "", " ")
	fmt.Println(string(b))
	if len(r.Violations) > 0 {
		return 1
	}
	return 0
}

func runReplay(chk *Check, tier, path string) int {
	b, err := os.ReadFile(path)
	if err != nil {
		fmt.Fprintln(os.Stderr, err)
		return 2
	}
	var rp struct {
		Tier      string      `json:"tier"`
		Violation []Violation `json:"violations"`
	}
	if err := json.Unmarshal(b, &rp); err != nil || len(rp.Violation) == 0 {
		fmt.Fprintln(os.Stderr, "bad replay file", err)
		return 2
	}
	if rp.Tier != "" {
		tier = rp.Tier
	}
	rc := 0
	for _, v := range rp.Violation {
		if v.Index < 0 {
			fmt.Printf("violation %q is not index-addressable: %s\n", v.Sig, v.Detail)
			continue
		}
		if c := runOne(chk, tier, v.Family, v.Index); c != 0 {
			rc = c
		}
	}
	return rc
}

// ---------------------------------------------------------------------------
// worker side

type workerMsg struct {
	T   string `json:"t"`
	Rec *Rec   `json:"rec,omitempty"`
	I   int64  `json:"i,omitempty"`
}

// worker spec: fam:k:n:from:progressfile
func runWorker(chk *Check, tier, spec string) int {
	parts := strings.SplitN(spec, ":", 5)
	f := findFam(chk, parts[0])
	k, _ := strconv.ParseInt(parts[1], 10, 64)
	n, _ := strconv.ParseInt(parts[2], 10, 64)
	from, _ := strconv.ParseInt(parts[3], 10, 64)
	pf, err := os.OpenFile(parts[4], os.O_RDWR|os.O_CREATE, 0o644)
	if err != nil {
		fmt.Fprintln(os.Stderr, err)
		return 2
	}
	if f.Setup != nil {
		f.Setup(tier)
	}
	total := f.N(tier)
	r := newRec()
	r.fam = f
	// protocol goes over fd 3; the program under test may print to stdout (prn, spew, ...)
	proto := os.NewFile(3, "proto")
	out := bufio.NewWriter(proto)
	if dn, err := os.OpenFile(os.DevNull, os.O_WRONLY, 0); err == nil {
		os.Stdout = dn
	}
	var cur atomic.Int64
	cur.Store(-1)
	to := f.Timeout
	if to == 0 {
		to = 60 * time.Second
	}
	deadlineNs, _ := strconv.ParseInt(os.Getenv("VERIF_DEADLINE_NS"), 10, 64)
	var mu sync.Mutex
	flush := func(t string, i int64) {
		mu.Lock()
		defer mu.Unlock()
		b, _ := json.Marshal(workerMsg{T: t, Rec: r, I: i})
		out.Write(b)
		out.WriteByte('\n')
		out.Flush()
	}
	// address-space limit: a case that allocates without bound must kill this worker, not the machine
	limitAddressSpace(12 << 30)
	// watchdog
	go func() {
		last, since := int64(-2), time.Now()
		var ms runtime.MemStats
		for {
			time.Sleep(200 * time.Millisecond)
			c := cur.Load()
			runtime.ReadMemStats(&ms)
			if c >= 0 && ms.HeapAlloc > 3<<30 {
				// the running case allocates without bound (e.g. a reader loop that never advances)
				flush("memory", c)
				os.Exit(4)
			}
			if c != last {
				last, since = c, time.Now()
				continue
			}
			if c >= 0 && time.Since(since) > to {
				// The worker goroutine is stuck inside case c. r is not touched
				// concurrently in a harmful way: the stuck goroutine is blocked.
				flush("hang", c)
				os.Exit(3)
			}
		}
	}()
	skip := map[int64]bool{}
	for _, x := range strings.Split(os.Getenv("VERIF_SKIP"), ",") {
		if v, err := strconv.ParseInt(x, 10, 64); err == nil {
			skip[v] = true
		}
	}
	lastFlush := time.Now()
	marker := parts[4][:strings.LastIndex(parts[4], "-")] + ".viol" // one marker per (check, family)
	markerWritten := false
	var buf [8]byte
	first := from
	for first%n != k {
		first++
	}
	cnt := 0
	for i := first; i < total; i += n {
		if skip[i] {
			continue
		}
		binary.LittleEndian.PutUint64(buf[:], uint64(i))
		pf.WriteAt(buf[:], 0)
		cur.Store(i)
		r.idx = i
		r.ntThis = false
		r.Cases++
		f.Run(i, r)
		if len(r.Samples) < 2 && r.ntThis {
			r.Samples = append(r.Samples, f.Describe(i))
		}
		cnt++
		// once any worker of this family has found a violation, the family is decided: give the
		// others a grace period to find more signatures, then stop (reported as a cap)
		if len(r.Violations) > 0 && !markerWritten {
			markerWritten = true
			if _, err := os.Stat(marker); err != nil {
				os.WriteFile(marker, []byte("x"), 0o644)
			}
		}
		if st, err := os.Stat(marker); err == nil && time.Since(st.ModTime()) > 150*time.Second {
			cur.Store(-1)
			flush("deadline", i)
			return 0
		}
		if cnt%16 == 0 {
			now := time.Now()
			if deadlineNs > 0 && now.UnixNano() > deadlineNs {
				cur.Store(-1)
				flush("deadline", i)
				return 0
			}
			if now.Sub(lastFlush) > 2*time.Second {
				lastFlush = now
				flush("prog", i)
			}
		}
	}
	cur.Store(-1)
	flush("done", total)
	return 0
}

// ---------------------------------------------------------------------------
// parent side

func (p *Parent) Internal(msg string) {
	p.internal = append(p.internal, msg)
	fmt.Fprintln(os.Stderr, "INTERNAL:", msg)
}

func merge(dst, src *Rec) {
	dst.Cases += src.Cases
	dst.Execs += src.Execs
	dst.Nontrivial += src.Nontrivial
	for k, v := range src.Outcomes {
		dst.Outcomes[k] += v
	}
	for k, v := range src.Notes {
		dst.Notes[k] += v
	}
	for k, v := range src.SigCount {
		dst.SigCount[k] += v
	}
	dst.Violations = append(dst.Violations, src.Violations...)
	for _, s := range src.Samples {
		if len(dst.Samples) < 24 {
			dst.Samples = append(dst.Samples, s)
		}
	}
	for _, c := range src.Caps {
		dst.Cap(c)
	}
}

func (p *Parent) runFamily(f *Family) {
	t0 := time.Now()
	total := f.N(p.Tier)
	famRec := newRec()
	famRec.fam = f
	complete := true
	if f.InProc {
		if f.Setup != nil {
			f.Setup(p.Tier)
		}
		for i := int64(0); i < total; i++ {
			if time.Now().After(p.Deadline) {
				complete = false
				famRec.Cap(fmt.Sprintf("%s: deadline at index %d of %d", f.Name, i, total))
				break
			}
			famRec.idx, famRec.ntThis = i, false
			famRec.Cases++
			f.Run(i, famRec)
			if len(famRec.Samples) < 3 && famRec.ntThis {
				famRec.Samples = append(famRec.Samples, f.Describe(i))
			}
		}
	} else {
		nw := f.Workers
		if nw == 0 {
			nw = runtime.NumCPU()
		}
		if v := os.Getenv("VERIF_WORKERS"); v != "" {
			nw, _ = strconv.Atoi(v)
		}
		if int64(nw) > total {
			nw = int(total)
		}
		if nw < 1 {
			nw = 1
		}
		os.MkdirAll(filepath.Join(VerifDir, ".work", "prog"), 0o755)
		os.Remove(filepath.Join(VerifDir, ".work", "prog", fmt.Sprintf("%s-%s.viol", p.Check.ID, f.Name)))
		var wg sync.WaitGroup
		var mu sync.Mutex
		for k := 0; k < nw; k++ {
			wg.Add(1)
			go func(k int) {
				defer wg.Done()
				ok := p.superviseWorker(f, k, nw, total, famRec, &mu)
				if !ok {
					mu.Lock()
					complete = false
					mu.Unlock()
				}
			}(k)
		}
		wg.Wait()
	}
	if !complete {
		p.exhaustive = false
	}
	if total > 0 {
		// evenly spaced cases of the space, so a reader sees what they look like
		for _, q := range []int64{total / 3, (2 * total) / 3, total - 1} {
			famRec.Samples = append([]string{f.Name + "#" + strconv.FormatInt(q, 10) + ": " + f.Describe(q)}, famRec.Samples...)
		}
	}
	merge(p.Total, famRec)
	p.famStats = append(p.famStats, map[string]any{
		"family": f.Name, "size": total, "cases_run": famRec.Cases, "executions": famRec.Execs,
		"nontrivial": famRec.Nontrivial, "complete": complete, "bounds": f.Bounds,
		"wall_s": round1(time.Since(t0).Seconds()),
	})
	fmt.Fprintf(os.Stderr, "[%s] family %-18s size=%d run=%d execs=%d nontrivial=%d complete=%v %.1fs\n",
		p.Check.ID, f.Name, total, famRec.Cases, famRec.Execs, famRec.Nontrivial, complete, time.Since(t0).Seconds())
}

func round1(x float64) float64 { return float64(int64(x*10+0.5)) / 10 }

// superviseWorker runs worker k, restarting it after a crash or hang (which is
// recorded as a violation of the case that was running).
func (p *Parent) superviseWorker(f *Family, k, n int, total int64, famRec *Rec, mu *sync.Mutex) bool {
	from := int64(0)
	var skips []string
	work := filepath.Join(VerifDir, ".work", "prog")
	os.MkdirAll(work, 0o755)
	pfile := filepath.Join(work, fmt.Sprintf("%s-%s-%d.idx", p.Check.ID, f.Name, k))
	defer os.Remove(pfile)
	crashes := 0
	for {
		os.WriteFile(pfile, make([]byte, 8), 0o644)
		spec := fmt.Sprintf("%s:%d:%d:%d:%s", f.Name, k, n, from, pfile)
		cmd := exec.Command(os.Args[0], p.Check.ID, "--tier", p.Tier, "--worker", spec)
		cmd.Env = append(os.Environ(), fmt.Sprintf("VERIF_DEADLINE_NS=%d", p.Deadline.UnixNano()), "GOMAXPROCS=2", "VERIF_SKIP="+strings.Join(skips, ","))
		cmd.Stdin = nil
		pr, pw, perr := os.Pipe()
		if perr != nil {
			p.Internal("pipe: " + perr.Error())
			return false
		}
		cmd.ExtraFiles = []*os.File{pw}
		stdout := pr
		var stderr tailBuf
		cmd.Stderr = &stderr
		if err := cmd.Start(); err != nil {
			p.Internal("cannot start worker: " + err.Error())
			return false
		}
		pw.Close()
		var last *workerMsg
		sc := bufio.NewScanner(stdout)
		sc.Buffer(make([]byte, 1<<20), 1<<28)
		for sc.Scan() {
			var m workerMsg
			if json.Unmarshal(sc.Bytes(), &m) == nil && m.T != "" {
				mm := m
				last = &mm
			}
		}
		err := cmd.Wait()
		pr.Close()
		if last != nil && (last.T == "done" || last.T == "deadline") {
			mu.Lock()
			merge(famRec, last.Rec)
			if last.T == "deadline" {
				famRec.Cap(fmt.Sprintf("%s: deadline reached at index %d of %d", f.Name, last.I, total))
			}
			mu.Unlock()
			return last.T == "done"
		}
		// crash or hang: find the case
		b, _ := os.ReadFile(pfile)
		var ci int64 = -1
		if len(b) >= 8 {
			ci = int64(binary.LittleEndian.Uint64(b))
		}
		kind := "worker-crash"
		if last != nil && last.T == "hang" {
			kind = "hang"
			ci = last.I
		}
		if last != nil && last.T == "memory" {
			kind = "unbounded memory growth (over 3 GiB in one case)"
			ci = last.I
		}
		crashes++
		mu.Lock()
		resume := from
		if last != nil && last.Rec != nil {
			// everything up to and including last.I is accounted for in last.Rec
			merge(famRec, last.Rec)
			resume = last.I + 1
		}
		tail := stderr.String()
		sig := kind + ": " + crashSig(tail)
		if kind == "hang" {
			sig = "hang"
		}
		if strings.HasPrefix(kind, "unbounded memory") {
			sig = kind
		}
		famRec.idx = ci
		desc := "?"
		if ci >= 0 {
			desc = f.Describe(ci)
		}
		famRec.ViolationCase(f.Name+": "+sig, desc, fmt.Sprintf("worker exit: %v\n%s", err, tail))
		mu.Unlock()
		if crashes > 6 || ci < 0 {
			// the violation is established; every further hanging/crashing case costs a watchdog period
			mu.Lock()
			famRec.Cap(fmt.Sprintf("family %s: a worker stopped after %d crashed/hung cases (each reported); the rest of its share was not run", f.Name, crashes))
			mu.Unlock()
			return false
		}
		skips = append(skips, strconv.FormatInt(ci, 10))
		from = resume
		if from >= total {
			return true
		}
	}
}

// crashSig extracts a stable signature from a Go crash dump.
func crashSig(tail string) string {
	lines := strings.Split(tail, "\n")
	head := ""
	for _, l := range lines {
		if strings.HasPrefix(l, "fatal error:") || strings.HasPrefix(l, "panic:") || strings.HasPrefix(l, "runtime: ") {
			head = l
			break
		}
	}
	site := ""
	for _, l := range lines {
		if strings.HasPrefix(l, "github.com/jig/lisp") {
			site = l
			if i := strings.LastIndex(site, "("); i > 0 {
				site = site[:i]
			}
			break
		}
	}
	if len(head) > 120 {
		head = head[:120]
	}
	return strings.TrimSpace(head + " @ " + site)
}

type tailBuf struct {
	mu  sync.Mutex
	buf []byte
}

func (t *tailBuf) Write(b []byte) (int, error) {
	t.mu.Lock()
	defer t.mu.Unlock()
	t.buf = append(t.buf, b...)
	if len(t.buf) > 1<<16 {
		// keep head (the panic message) and tail
		h := append([]byte{}, t.buf[:1<<14]...)
		t.buf = append(h, t.buf[len(t.buf)-(1<<14):]...)
	}
	return len(b), nil
}
func (t *tailBuf) String() string { t.mu.Lock(); defer t.mu.Unlock(); return string(t.buf) }

func (p *Parent) run(famOnly string) int {
	for _, f := range p.Check.Families {
		if famOnly != "" && f.Name != famOnly {
			continue
		}
		p.runFamily(f)
	}
	if p.Check.RacePass != nil && famOnly == "" {
		p.runRacePass()
	}
	if p.Check.Post != nil && famOnly == "" {
		p.Check.Post(p)
	}
	return p.finish()
}

// finish classifies violations against known findings, writes replay + evidence.
func (p *Parent) finish() int {
	kf := LoadKnown()
	bySig := map[string][]Violation{}
	var sigs []string
	for _, v := range p.Total.Violations {
		if _, ok := bySig[v.Sig]; !ok {
			sigs = append(sigs, v.Sig)
		}
		bySig[v.Sig] = append(bySig[v.Sig], v)
	}
	for s := range p.Total.SigCount {
		if _, ok := bySig[s]; !ok {
			sigs = append(sigs, s)
			bySig[s] = nil
		}
	}
	sort.Strings(sigs)
	newViol := 0
	knownSeen := 0
	os.MkdirAll(filepath.Join(VerifDir, "replays"), 0o755)
	for _, s := range sigs {
		vs := bySig[s]
		sort.Slice(vs, func(i, j int) bool { return vs[i].Index < vs[j].Index })
		if k := kf.Match(p.Check.ID, s); k != nil {
			knownSeen++
			ex := ""
			if len(vs) > 0 {
				ex = " e.g. " + oneLine(vs[0].Case, 160)
			}
			fmt.Printf("KNOWN-FINDING: property=%s %s [%s] (%d cases this run)%s\n", p.Check.ID, k.What, s, p.Total.SigCount[s], ex)
			continue
		}
		newViol++
		path := filepath.Join(VerifDir, "replays", fmt.Sprintf("%s-%s.json", p.Check.ID, hashStr(s)))
		rp := map[string]any{"property": p.Check.ID, "tier": p.Tier, "signature": s, "count": p.Total.SigCount[s], "violations": vs,
			"replay_cmd": fmt.Sprintf("/verif/run.sh %s --replay %s", p.Check.ID, path)}
		b, _ := json.MarshalIndent(rp, "", " ")
		os.WriteFile(path, b, 0o644)
		if len(vs) > 0 {
			fmt.Printf("  signature: %s\n  case: %s\n  detail: %s\n", s, oneLine(vs[0].Case, 300), oneLine(vs[0].Detail, 600))
		}
		fmt.Printf("VIOLATION property=%s replay=%s\n", p.Check.ID, path)
	}
	p.writeEvidence(newViol, knownSeen)
	if len(p.internal) > 0 && newViol == 0 {
		return 2
	}
	if newViol > 0 {
		return 1
	}
	return 0
}

func oneLine(s string, n int) string {
	s = strings.ReplaceAll(s, "\n", "\\n")
	if len(s) > n {
		s = s[:n] + "…"
	}
	return s
}

func hashStr(s string) string {
	var h uint64 = 1469598103934665603
	for i := 0; i < len(s); i++ {
		h ^= uint64(s[i])
		h *= 1099511628211
	}
	return fmt.Sprintf("%012x", h&0xffffffffffff)
}

func (p *Parent) writeEvidence(newViol, knownSeen int) {
	t := p.Total
	samples := []any{}
	for _, s := range t.Samples {
		samples = append(samples, s)
	}
	if len(samples) == 0 {
		samples = append(samples, "(no case executed)")
	}
	cov := map[string]any{
		"states":                        t.Cases,
		"transitions":                   max64(t.Execs, t.Cases),
		"traces_validated_against_impl": max64(t.Execs, t.Cases),
		"evaluations":                   max64(t.Execs, t.Cases),
		"distinct_nontrivial":           t.Nontrivial,
		"rule":                          p.Check.Rule,
		"samples":                       samples,
		"exhaustive":                    p.exhaustive,
		"families":                      p.famStats,
		"outcomes":                      t.Outcomes,
		"notes":                         t.Notes,
		"caps_hit":                      append([]string{}, t.Caps...),
		"known_findings_observed":       knownSeen,
		"violation_signatures":          t.SigCount,
	}
	for k, v := range p.Extra {
		cov[k] = v
	}
	ev := map[string]any{
		"property_id": p.Check.ID,
		"tier":        p.Tier,
		"seed":        p.Seed,
		"level":       p.Check.Level,
		"coverage":    cov,
		"assumptions": p.Check.Assumptions,
		"wall_s":      round1(time.Since(p.start).Seconds()),
		"violations":  newViol,
	}
	if p.Check.Assumptions == nil {
		ev["assumptions"] = []string{}
	}
	b, _ := json.MarshalIndent(ev, "", " ")
	os.MkdirAll(filepath.Join(VerifDir, "evidence"), 0o755)
	os.WriteFile(filepath.Join(VerifDir, "evidence", p.Check.ID+".json"), b, 0o644)
}

func max64(a, b int64) int64 {
	if a > b {
		return a
	}
	return b
}

// ---------------------------------------------------------------------------
// known findings

type Known struct {
	Property  string `json:"property"`
	Signature string `json:"signature"`
	What      string `json:"what"`
}
type KnownFile struct {
	Known []Known  `json:"known"`
	Fixed []string `json:"fixed"`
}

func LoadKnown() *KnownFile {
	var k KnownFile
	b, err := os.ReadFile(filepath.Join(VerifDir, "known_findings.json"))
	if err == nil {
		json.Unmarshal(b, &k)
	}
	return &k
}

func (k *KnownFile) Match(prop, sig string) *Known {
	for i := range k.Known {
		if k.Known[i].Property == prop && k.Known[i].Signature == sig {
			return &k.Known[i]
		}
	}
	return nil
}

// runRacePass executes the -race build of this check's scenario bodies and turns every
// reported data race whose stacks touch jig/lisp into a violation (the race detector has
// no false positives). It samples schedules: auxiliary evidence for the "no data race"
// clause, never the deciding step for the schedule-quantified clauses.
func (p *Parent) runRacePass() {
	bin := filepath.Join(VerifDir, ".work", "bin", "vcheck-race")
	if _, err := os.Stat(bin); err != nil {
		p.Internal("race binary missing: " + bin)
		return
	}
	t0 := time.Now()
	cmd := exec.Command(bin, p.Check.ID, "--tier", p.Tier, "--racepass")
	cmd.Env = append(os.Environ(), "GORACE=halt_on_error=0 history_size=3", "GOMAXPROCS=16")
	var stderr tailBufBig
	cmd.Stderr = &stderr
	cmd.Stdout = nil
	done := make(chan error, 1)
	if err := cmd.Start(); err != nil {
		p.Internal("race pass: " + err.Error())
		return
	}
	go func() { done <- cmd.Wait() }()
	limit := 10 * time.Minute
	if p.Tier == "thorough" {
		limit = 40 * time.Minute
	}
	select {
	case <-done:
	case <-time.After(limit):
		cmd.Process.Kill()
		p.Total.Cap("race pass stopped at its time limit")
	}
	out := stderr.String()
	completed := strings.Contains(out, "RACEPASS-DONE")
	races := ParseRaces(out)
	n := 0
	for sig, detail := range races {
		n++
		p.Total.fam = &Family{Name: "race-pass", Describe: func(int64) string { return "free-running -race pass" }}
		p.Total.idx = -1
		p.Total.ViolationCase("data race: "+sig, "free-running -race pass of the scenario bodies", detail)
	}
	iters := 0
	seenV := map[string]bool{}
	for _, l := range strings.Split(out, "\n") {
		if strings.HasPrefix(l, "RACEPASS-ITERATIONS ") {
			fmt.Sscanf(l, "RACEPASS-ITERATIONS %d", &iters)
		}
		// a functional observation of the free-running bodies themselves (e.g. a call entered with
		// another evaluation's context)
		if strings.HasPrefix(l, "RACEPASS-VIOLATION ") && !seenV[l] {
			seenV[l] = true
			n++
			p.Total.fam = &Family{Name: "race-pass", Describe: func(int64) string { return "free-running -race pass" }}
			p.Total.idx = -1
			p.Total.ViolationCase(strings.TrimPrefix(l, "RACEPASS-VIOLATION "), "free-running -race pass of the scenario bodies", l)
		}
	}
	if !completed && n == 0 {
		p.Internal("race pass did not complete: " + oneLine(tail(out, 600), 600))
	}
	p.Extra["race_pass"] = map[string]any{"completed": completed, "scenario_iterations": iters, "distinct_races": n, "wall_s": round1(time.Since(t0).Seconds()),
		"note": "free-running goroutines under the Go race detector; samples schedules (auxiliary evidence for the no-data-race clause)"}
	fmt.Fprintf(os.Stderr, "[%s] race pass: completed=%v iterations=%d races=%d %.1fs\n", p.Check.ID, completed, iters, n, time.Since(t0).Seconds())
}

func tail(s string, n int) string {
	if len(s) > n {
		return s[len(s)-n:]
	}
	return s
}

type tailBufBig struct {
	mu  sync.Mutex
	buf []byte
}

func (t *tailBufBig) Write(b []byte) (int, error) {
	t.mu.Lock()
	defer t.mu.Unlock()
	if len(t.buf) < 8<<20 {
		t.buf = append(t.buf, b...)
	}
	return len(b), nil
}
func (t *tailBufBig) String() string { t.mu.Lock(); defer t.mu.Unlock(); return string(t.buf) }

// ParseRaces extracts the distinct data races (by the two innermost jig/lisp functions)
// from race detector output.
func ParseRaces(out string) map[string]string {
	res := map[string]string{}
	blocks := strings.Split(out, "==================")
	for _, b := range blocks {
		if !strings.Contains(b, "WARNING: DATA RACE") {
			continue
		}
		// stacks: sections starting with "Write at", "Read at", "Previous write at", "Previous read at"
		var tops []string
		harness := false
		lines := strings.Split(b, "\n")
		inAccess := false
		found := false
		for _, l := range lines {
			tl := strings.TrimSpace(l)
			if strings.HasPrefix(tl, "Write at") || strings.HasPrefix(tl, "Read at") || strings.HasPrefix(tl, "Previous write at") || strings.HasPrefix(tl, "Previous read at") {
				inAccess, found = true, false
				continue
			}
			if strings.HasPrefix(tl, "Goroutine ") {
				inAccess = false
			}
			if inAccess && !found && strings.HasSuffix(tl, ")") && !strings.HasPrefix(tl, "/") {
				// the innermost frame that is not runtime plumbing owns the access
				if strings.HasPrefix(tl, "runtime.") || strings.HasPrefix(tl, "reflect.") || strings.HasPrefix(tl, "sync.") || strings.HasPrefix(tl, "sync/atomic.") || strings.HasPrefix(tl, "internal/") {
					continue
				}
				if !strings.HasPrefix(tl, "github.com/jig/lisp") || strings.Contains(tl, "/zverif/") {
					harness = true
					found = true
					continue
				}
			}
			if inAccess && !found && strings.HasPrefix(tl, "github.com/jig/lisp") && !strings.Contains(tl, "/zverif/") {
				f := tl
				if i := strings.LastIndex(f, "("); i > 0 {
					f = f[:i]
				}
				tops = append(tops, f)
				found = true
			}
		}
		if len(tops) == 0 || harness {
			continue // an access made by harness code itself: not a property of jig/lisp
		}
		sort.Strings(tops)
		sig := strings.Join(tops, " <-> ")
		if _, ok := res[sig]; !ok {
			d := b
			if len(d) > 3000 {
				d = d[:3000]
			}
			res[sig] = d
		}
	}
	return res
}
