package vf

import "syscall"

// limitAddressSpace sets RLIMIT_AS for this (worker) process.
func limitAddressSpace(bytes uint64) {
	var lim syscall.Rlimit
	if err := syscall.Getrlimit(syscall.RLIMIT_AS, &lim); err != nil {
		return
	}
	if lim.Cur > bytes { // RLIM_INFINITY is the largest value
		lim.Cur = bytes
		syscall.Setrlimit(syscall.RLIMIT_AS, &lim)
	}
}
