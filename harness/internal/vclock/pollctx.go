// Package vclock provides a deterministic, poll-counting context: the evaluator
// polls ctx.Done() once per loop iteration, so "the k-th poll" is an enumerable
// cancellation instant, independent of wall-clock time.
package vclock

import (
	"context"
	"sync"
	"time"
)

// PollCtx cancels itself when Done() has been called Limit times (Limit<=0: never).
type PollCtx struct {
	mu       sync.Mutex
	Polls    int
	Limit    int
	ch       chan struct{}
	closed   bool
	err      error
	after    []*afterEntry
	OnPoll   func(n int) // called on every poll, before the limit check
	deadline time.Time
	hasDl    bool
	Reason   error
}

type afterEntry struct {
	f    func()
	done bool
}

func NewPollCtx(limit int) *PollCtx {
	return &PollCtx{Limit: limit, ch: make(chan struct{}), Reason: context.Canceled}
}

// WithDeadline makes Deadline() report d (used by the 80/20 budget split).
func (c *PollCtx) WithDeadline(d time.Time) *PollCtx {
	c.deadline, c.hasDl = d, true
	c.Reason = context.DeadlineExceeded
	return c
}

func (c *PollCtx) Deadline() (time.Time, bool) { return c.deadline, c.hasDl }

func (c *PollCtx) Done() <-chan struct{} {
	c.mu.Lock()
	c.Polls++
	n := c.Polls
	op := c.OnPoll
	c.mu.Unlock()
	if op != nil {
		op(n)
	}
	if c.Limit > 0 && n >= c.Limit {
		c.Cancel()
	}
	return c.ch
}

// Cancel cancels now (idempotent) and runs AfterFunc callbacks synchronously.
func (c *PollCtx) Cancel() {
	c.mu.Lock()
	if c.closed {
		c.mu.Unlock()
		return
	}
	c.closed = true
	c.err = c.Reason
	close(c.ch)
	fs := c.after
	c.after = nil
	c.mu.Unlock()
	for _, e := range fs {
		if !e.done {
			e.done = true
			e.f()
		}
	}
}

func (c *PollCtx) Cancelled() bool { c.mu.Lock(); defer c.mu.Unlock(); return c.closed }

func (c *PollCtx) Err() error { c.mu.Lock(); defer c.mu.Unlock(); return c.err }

func (c *PollCtx) Value(key any) any { return nil }

// AfterFunc lets context.WithCancel/WithTimeout children attach without a
// watcher goroutine (Go >= 1.21), so child cancellation is synchronous.
func (c *PollCtx) AfterFunc(f func()) (stop func() bool) {
	c.mu.Lock()
	if c.closed {
		c.mu.Unlock()
		go f() // context.propagateCancel holds the child's lock while registering
		return func() bool { return false }
	}
	e := &afterEntry{f: f}
	c.after = append(c.after, e)
	c.mu.Unlock()
	return func() bool {
		c.mu.Lock()
		defer c.mu.Unlock()
		if e.done {
			return false
		}
		e.done = true
		return true
	}
}
