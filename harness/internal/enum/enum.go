// Package enum enumerates every derivation of a weighted term grammar up to a
// weight bound, addressable by index (count/unrank), in canonical order: total
// weight first, then production order, then children left to right.
package enum

import "verifharness/internal/model"

type V = model.Value

// Prod is one production: Weight (>=1) plus the children non-terminals.
type Prod struct {
	Name   string
	Weight int
	Kids   []int
	Build  func(kids []V) V
}

type Grammar struct {
	NTs  [][]Prod
	cnt  [][]int64          // cnt[nt][w]
	pcnt map[[3]int][]int64 // (nt,prod,kidIdx) -> counts by weight for kids[kidIdx:]
	maxW int
}

func New(nts [][]Prod, maxW int) *Grammar {
	g := &Grammar{NTs: nts, maxW: maxW, pcnt: map[[3]int][]int64{}}
	g.cnt = make([][]int64, len(nts))
	for i := range g.cnt {
		g.cnt[i] = make([]int64, maxW+1)
	}
	// weights are >=1 so cnt[.][w] depends only on smaller weights of kids
	for w := 1; w <= maxW; w++ {
		for nt := range nts {
			var total int64
			for pi, p := range nts[nt] {
				if w < p.Weight {
					continue
				}
				total += g.tail(nt, pi, 0, w-p.Weight, w)
			}
			g.cnt[nt][w] = total
		}
	}
	return g
}

// tail = number of ways kids[k:] of production (nt,pi) derive total weight w.
// limit is the weight currently being filled (kids have weight < limit).
func (g *Grammar) tail(nt, pi, k, w, limit int) int64 {
	p := g.NTs[nt][pi]
	if k == len(p.Kids) {
		if w == 0 {
			return 1
		}
		return 0
	}
	rem := len(p.Kids) - k - 1 // each remaining kid needs weight >=1
	var total int64
	for w1 := 1; w1 <= w-rem; w1++ {
		c := g.cnt[p.Kids[k]][w1]
		if c == 0 {
			continue
		}
		total += c * g.tail(nt, pi, k+1, w-w1, limit)
	}
	return total
}

// CountExact returns the number of terms of nt with weight exactly w.
func (g *Grammar) CountExact(nt, w int) int64 { return g.cnt[nt][w] }

// Count returns the number of terms of nt with weight <= w.
func (g *Grammar) Count(nt, w int) int64 {
	var t int64
	for i := 1; i <= w && i <= g.maxW; i++ {
		t += g.cnt[nt][i]
	}
	return t
}

// Unrank returns the i-th term (0-based) among terms of nt with weight <= maxW.
func (g *Grammar) Unrank(nt int, i int64) V {
	for w := 1; w <= g.maxW; w++ {
		if i < g.cnt[nt][w] {
			return g.unrankExact(nt, w, i)
		}
		i -= g.cnt[nt][w]
	}
	panic("enum: index out of range")
}

func (g *Grammar) unrankExact(nt, w int, i int64) V {
	for pi, p := range g.NTs[nt] {
		if w < p.Weight {
			continue
		}
		c := g.tail(nt, pi, 0, w-p.Weight, w)
		if i < c {
			kids := make([]V, 0, len(p.Kids))
			g.unrankKids(nt, pi, 0, w-p.Weight, i, &kids)
			return p.Build(kids)
		}
		i -= c
	}
	panic("enum: unrankExact out of range")
}

func (g *Grammar) unrankKids(nt, pi, k, w int, i int64, out *[]V) {
	p := g.NTs[nt][pi]
	if k == len(p.Kids) {
		return
	}
	rem := len(p.Kids) - k - 1
	for w1 := 1; w1 <= w-rem; w1++ {
		c1 := g.cnt[p.Kids[k]][w1]
		if c1 == 0 {
			continue
		}
		rest := g.tail(nt, pi, k+1, w-w1, 0)
		block := c1 * rest
		if i < block {
			*out = append(*out, g.unrankExact(p.Kids[k], w1, i/rest))
			g.unrankKids(nt, pi, k+1, w-w1, i%rest, out)
			return
		}
		i -= block
	}
	panic("enum: unrankKids out of range")
}
