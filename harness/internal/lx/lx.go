// Package lx is the glue to the implementation under test (jig/lisp).
package lx

import (
	"context"
	"fmt"
	"os"
	"regexp"
	"runtime/debug"
	"strings"

	lisp "github.com/jig/lisp"
	"github.com/jig/lisp/env"
	"github.com/jig/lisp/lib/call"
	"github.com/jig/lisp/lib/concurrent/nsconcurrent"
	"github.com/jig/lisp/lib/core/nscore"
	"github.com/jig/lisp/lib/coreextented/nscoreextended"
	"github.com/jig/lisp/types"
)

// NewFullEnv returns an environment with core, input, concurrent and
// coreextended loaded (the order coreextended needs).
func NewFullEnv() types.EnvType {
	e := env.NewEnv()
	for _, l := range []func(types.EnvType) error{nscore.Load, nscore.LoadInput, nsconcurrent.Load, nscoreextended.Load} {
		if err := l(e); err != nil {
			fmt.Fprintln(os.Stderr, "INTERNAL: library load failed:", err)
			os.Exit(2)
		}
	}
	return e
}

// NewCoreEnv loads only the core library (+ concurrent, for atoms).
func NewCoreEnv() types.EnvType {
	e := env.NewEnv()
	for _, l := range []func(types.EnvType) error{nscore.Load, nsconcurrent.Load} {
		if err := l(e); err != nil {
			fmt.Fprintln(os.Stderr, "INTERNAL: library load failed:", err)
			os.Exit(2)
		}
	}
	return e
}

// Panic describes a recovered Go panic.
type Panic struct {
	Val   any
	Site  string // top jig/* frame (function name, no line)
	Stack string
}

func (p *Panic) String() string {
	if p == nil {
		return ""
	}
	return fmt.Sprintf("panic(%v) at %s", p.Val, p.Site)
}

var frameRE = regexp.MustCompile(`^(github\.com/jig/[^\s(]+(?:\([^)]*\))?[^\s(]*)\(`)

// site finds the first jig/lisp or jig/scanner frame below the panic call.
func site(stack string) string {
	lines := strings.Split(stack, "\n")
	seenPanic := false
	for _, l := range lines {
		if strings.HasPrefix(l, "panic(") {
			seenPanic = true
			continue
		}
		if !seenPanic {
			continue
		}
		if strings.HasPrefix(l, "github.com/jig/") {
			// strip the argument list
			f := l
			if i := strings.LastIndex(f, "("); i > 0 {
				f = f[:i]
			}
			if strings.HasPrefix(f, "github.com/jig/lisp/lib/call._recover") {
				continue
			}
			return f
		}
	}
	return "?"
}

// Guard runs f and converts a panic into *Panic.
func Guard(f func()) (p *Panic) {
	defer func() {
		if r := recover(); r != nil {
			st := string(debug.Stack())
			p = &Panic{Val: r, Site: site(st), Stack: st}
		}
	}()
	f()
	return nil
}

// Eval evaluates under Guard.
func Eval(ctx context.Context, ast types.MalType, e types.EnvType) (res types.MalType, err error, p *Panic) {
	if ctx == nil {
		ctx = context.Background() // EVAL documents that it requires a context
	}
	p = Guard(func() { res, err = lisp.EVAL(ctx, ast, e) })
	return
}

// Read reads under Guard.
func Read(src string) (res types.MalType, err error, p *Panic) {
	p = Guard(func() { res, err = lisp.READ(src, nil, nil) })
	return
}

// MustRead reads harness-authored text; failure is an internal error.
func MustRead(src string) types.MalType {
	r, err := lisp.READ(src, nil, nil)
	if err != nil {
		panic(fmt.Sprintf("harness text does not read: %q: %v", src, err))
	}
	return r
}

// Tracer is the Go-side effect log behind the harness builtin (t! c).
type Tracer struct{ Log []types.MalType }

func (t *Tracer) Reset() { t.Log = t.Log[:0] }

// Install registers (t! c) in e: appends c to the log, returns c.
func (t *Tracer) Install(e types.EnvType) {
	call.CallOverrideFN(e, "t!", func(c types.MalType) (types.MalType, error) {
		t.Log = append(t.Log, c)
		return c, nil
	})
}

// ErrValue returns the lisp value carried by an error, if any.
func ErrValue(err error) (types.MalType, bool) {
	if ev, ok := err.(interface{ ErrorValue() types.MalType }); ok {
		return ev.ErrorValue(), true
	}
	return nil, false
}
