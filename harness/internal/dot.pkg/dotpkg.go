// Package dotpkg lives under an import path whose last element contains a dot
// (verifharness/internal/dot.pkg): the reflective binder derives names from
// runtime function names, which embed the import path.
package dotpkg

import "github.com/jig/lisp/types"

var Entered []string

func Verif_Named_Fn(a types.MalType) (types.MalType, error) {
	Entered = append(Entered, "Verif_Named_Fn")
	return a, nil
}

func PlainName() (types.MalType, error) {
	Entered = append(Entered, "PlainName")
	return 1, nil
}
