package model

import (
	"fmt"
)

// ErrClass classifies evaluation failures in the reference semantics.
type ErrClass int

const (
	EThrown      ErrClass = iota // (throw v): payload is v
	EUnbound                     // unbound symbol
	ENotCallable                 // head is not a function
	EArity                       // wrong number of arguments
	EDomain                      // builtin applied outside its domain
	EGo                          // error returned/panicked by a Go builtin (boom!, pan!)
	EFuel                        // out of fuel (not an outcome, the case is skipped)
	EMalformed                   // ill-formed special form (generators never produce these)
)

func (c ErrClass) String() string {
	return [...]string{"Thrown", "Unbound", "NotCallable", "Arity", "Domain", "GoError", "Fuel", "Malformed"}[c]
}

type Err struct {
	Class    ErrClass
	Payload  Value // what a catch handler receives
	Msg      string
	Sentinel string // for EGo: which harness sentinel error must be reachable with errors.Is
}

func (e *Err) String() string {
	if e == nil {
		return "<nil>"
	}
	return fmt.Sprintf("%s(%s) %s", e.Class, e.Payload.String(), e.Msg)
}

func thrown(v Value) *Err { return &Err{Class: EThrown, Payload: v} }
func goErr(c ErrClass, msg string) *Err {
	return &Err{Class: c, Payload: Opaque("go-error"), Msg: msg}
}

type Scope struct {
	vars   map[string]Value
	parent *Scope
}

func NewScope(parent *Scope) *Scope { return &Scope{vars: map[string]Value{}, parent: parent} }

func (s *Scope) Lookup(name string) (Value, bool) {
	for c := s; c != nil; c = c.parent {
		if v, ok := c.vars[name]; ok {
			return v, true
		}
	}
	return Nil, false
}

func (s *Scope) Set(name string, v Value) { s.vars[name] = v }

// Own returns the binding of name in this very scope.
func (s *Scope) Own(name string) (Value, bool) { v, ok := s.vars[name]; return v, ok }

type Builtin func(in *Interp, args []Value) (Value, *Err)

type Closure struct {
	Params  []string
	Rest    string
	HasRest bool
	Body    []Value
	Env     *Scope
	IsMacro bool
	Builtin Builtin
	Name    string
}

// Interp is the definitional evaluator.
type Interp struct {
	Trace  []Value
	Fuel   int
	Unspec bool // the program entered territory the definition leaves open
	Events []string
}

func isForm(v Value, head string) bool {
	return v.K == KList && len(v.Elems) > 0 && v.Elems[0].K == KSym && v.Elems[0].S == head
}

func (in *Interp) doAll(forms []Value, sc *Scope) (Value, *Err) {
	res := Nil
	for _, f := range forms {
		v, err := in.Eval(f, sc)
		if err != nil {
			return Nil, err
		}
		res = v
	}
	return res, nil
}

func seqElems(v Value) ([]Value, bool) {
	if v.IsSeq() {
		return v.Elems, true
	}
	return nil, false
}

func (in *Interp) macroOf(form Value, sc *Scope) *Closure {
	if form.K != KList || len(form.Elems) == 0 || form.Elems[0].K != KSym {
		return nil
	}
	v, ok := sc.Lookup(form.Elems[0].S)
	if !ok || v.K != KFn || v.Fn == nil || !v.Fn.IsMacro {
		return nil
	}
	return v.Fn
}

// Macroexpand applies macros until the head is no longer a macro.
func (in *Interp) Macroexpand(form Value, sc *Scope) (Value, *Err) {
	for {
		m := in.macroOf(form, sc)
		if m == nil {
			return form, nil
		}
		if in.Fuel--; in.Fuel < 0 {
			return Nil, &Err{Class: EFuel}
		}
		r, err := in.Apply(Value{K: KFn, Fn: m}, form.Elems[1:])
		if err != nil {
			return Nil, err
		}
		form = r
	}
}

// Apply calls a function value with already evaluated arguments.
func (in *Interp) Apply(f Value, args []Value) (Value, *Err) {
	if f.K != KFn || f.Fn == nil {
		return Nil, goErr(ENotCallable, "not a function")
	}
	c := f.Fn
	if c.Builtin != nil {
		return c.Builtin(in, args)
	}
	if len(args) < len(c.Params) {
		return Nil, goErr(EArity, "too few arguments")
	}
	if len(args) > len(c.Params) && !c.HasRest {
		return Nil, goErr(EArity, "too many arguments")
	}
	sc := NewScope(c.Env)
	for i, p := range c.Params {
		sc.Set(p, args[i])
	}
	if c.HasRest {
		sc.Set(c.Rest, List(append([]Value{}, args[len(c.Params):]...)...))
	}
	return in.doAll(c.Body, sc)
}

func parseParams(p Value) (params []string, rest string, hasRest bool, ok bool) {
	el, isSeq := seqElems(p)
	if !isSeq {
		return nil, "", false, false
	}
	for i := 0; i < len(el); i++ {
		if el[i].K != KSym {
			return nil, "", false, false
		}
		if el[i].S == "&" {
			if i+1 >= len(el) || el[i+1].K != KSym {
				return nil, "", false, false
			}
			// anything after the rest name is ignored by the implementation too
			return params, el[i+1].S, true, true
		}
		params = append(params, el[i].S)
	}
	return params, "", false, true
}

func malformed(msg string) *Err {
	return &Err{Class: EMalformed, Msg: msg, Payload: Opaque("go-error")}
}

// Eval evaluates form in sc.
func (in *Interp) Eval(form Value, sc *Scope) (Value, *Err) {
	if in.Fuel--; in.Fuel < 0 {
		return Nil, &Err{Class: EFuel}
	}
	switch form.K {
	case KSym:
		v, ok := sc.Lookup(form.S)
		if !ok {
			return Nil, goErr(EUnbound, form.S)
		}
		return v, nil
	case KVec:
		out := make([]Value, 0, len(form.Elems))
		for _, e := range form.Elems {
			v, err := in.Eval(e, sc)
			if err != nil {
				return Nil, err
			}
			out = append(out, v)
		}
		return Value{K: KVec, Elems: out}, nil
	case KMap:
		ents := make([]MapEntry, 0, len(form.Ents))
		for _, e := range form.Ents {
			v, err := in.Eval(e.V, sc)
			if err != nil {
				return Nil, err
			}
			ents = append(ents, MapEntry{e.K, v})
		}
		return Value{K: KMap, Ents: ents}, nil
	case KList:
	default:
		return form, nil
	}
	form, err := in.Macroexpand(form, sc)
	if err != nil {
		return Nil, err
	}
	if form.K != KList {
		return in.Eval(form, sc)
	}
	l := form.Elems
	if len(l) == 0 {
		return form, nil
	}
	arg := func(i int) Value {
		if i < len(l) {
			return l[i]
		}
		return Nil
	}
	if l[0].K == KSym {
		switch l[0].S {
		case "def":
			if len(l) < 3 || l[1].K != KSym {
				return Nil, malformed("def")
			}
			v, err := in.Eval(l[2], sc)
			if err != nil {
				return Nil, err
			}
			sc.Set(l[1].S, v)
			return v, nil
		case "let":
			if len(l) < 2 {
				return Nil, malformed("let")
			}
			b, ok := seqElems(l[1])
			if !ok || len(b)%2 != 0 {
				return Nil, malformed("let bindings")
			}
			child := NewScope(sc)
			for i := 0; i < len(b); i += 2 {
				if b[i].K != KSym {
					return Nil, malformed("let binding name")
				}
				v, err := in.Eval(b[i+1], child)
				if err != nil {
					return Nil, err
				}
				child.Set(b[i].S, v)
			}
			return in.doAll(l[2:], child)
		case "quote":
			return arg(1), nil
		case "quasiquote":
			if len(l) != 2 {
				return Nil, malformed("quasiquote")
			}
			return in.quasi(l[1], sc)
		case "defmacro":
			if len(l) < 3 || l[1].K != KSym {
				return Nil, malformed("defmacro")
			}
			v, err := in.Eval(l[2], sc)
			if err != nil {
				return Nil, err
			}
			if v.K != KFn || v.Fn == nil || v.Fn.Builtin != nil {
				return Nil, malformed("defmacro of non-closure")
			}
			c := *v.Fn
			c.IsMacro = true
			mv := Value{K: KFn, Fn: &c}
			sc.Set(l[1].S, mv)
			return mv, nil
		case "macroexpand":
			return in.Macroexpand(arg(1), sc)
		case "try":
			forms := l[1:]
			var fin, handler []Value
			hasFin, hasCatch := false, false
			catchSym := ""
			if n := len(forms); n > 0 && isForm(forms[n-1], "finally") {
				hasFin = true
				fin = forms[n-1].Elems[1:]
				forms = forms[:n-1]
			}
			if n := len(forms); n > 0 && isForm(forms[n-1], "catch") {
				c := forms[n-1].Elems
				if len(c) < 3 || c[1].K != KSym {
					return Nil, malformed("catch")
				}
				hasCatch = true
				catchSym = c[1].S
				handler = c[2:]
				forms = forms[:n-1]
			}
			r, err := in.doAll(forms, sc)
			if err != nil && err.Class != EFuel && hasCatch {
				if err.Class == EDomain || err.Class == EArity {
					// what a handler sees for a builtin's own failure is not prescribed
					in.Unspec = true
				}
				child := NewScope(sc)
				child.Set(catchSym, err.Payload)
				r, err = in.doAll(handler, child)
			}
			if hasFin && (err == nil || err.Class != EFuel) {
				if _, ferr := in.doAll(fin, sc); ferr != nil {
					if ferr.Class == EFuel {
						return Nil, ferr
					}
					in.Events = append(in.Events, "finally-error-swallowed")
				}
			}
			return r, err
		case "do":
			return in.doAll(l[1:], sc)
		case "if":
			if len(l) < 3 {
				return Nil, malformed("if")
			}
			c, err := in.Eval(l[1], sc)
			if err != nil {
				return Nil, err
			}
			if c.Truthy() {
				return in.Eval(l[2], sc)
			}
			if len(l) >= 4 {
				return in.Eval(l[3], sc)
			}
			return Nil, nil
		case "fn":
			if len(l) < 2 {
				return Nil, malformed("fn")
			}
			ps, rest, hasRest, ok := parseParams(l[1])
			if !ok {
				return Nil, malformed("fn params")
			}
			return Value{K: KFn, Fn: &Closure{Params: ps, Rest: rest, HasRest: hasRest, Body: l[2:], Env: sc}}, nil
		}
	}
	// application: head and operands evaluated left to right, exactly once
	vals := make([]Value, 0, len(l))
	for _, e := range l {
		v, err := in.Eval(e, sc)
		if err != nil {
			return Nil, err
		}
		vals = append(vals, v)
	}
	return in.Apply(vals[0], vals[1:])
}

// quasi evaluates a quasiquoted template by direct substitution.
func (in *Interp) quasi(t Value, sc *Scope) (Value, *Err) {
	switch t.K {
	case KList:
		if isForm(t, "unquote") {
			if len(t.Elems) != 2 {
				return Nil, malformed("unquote")
			}
			return in.Eval(t.Elems[1], sc)
		}
		el, err := in.quasiElems(t.Elems, sc)
		if err != nil {
			return Nil, err
		}
		return Value{K: KList, Elems: el}, nil
	case KVec:
		el, err := in.quasiElems(t.Elems, sc)
		if err != nil {
			return Nil, err
		}
		return Value{K: KVec, Elems: el}, nil
	default:
		return t, nil
	}
}

func (in *Interp) quasiElems(elems []Value, sc *Scope) ([]Value, *Err) {
	out := []Value{}
	for _, e := range elems {
		if isForm(e, "splice-unquote") {
			if len(e.Elems) != 2 {
				return nil, malformed("splice-unquote")
			}
			v, err := in.Eval(e.Elems[1], sc)
			if err != nil {
				return nil, err
			}
			s, ok := seqElems(v)
			if !ok {
				in.Unspec = true
				return nil, goErr(EDomain, "splice of non-sequence")
			}
			out = append(out, s...)
			continue
		}
		v, err := in.quasi(e, sc)
		if err != nil {
			return nil, err
		}
		out = append(out, v)
	}
	return out, nil
}

// ---- builtin vocabulary -----------------------------------------------------

func B(name string, f Builtin) Value {
	return Value{K: KFn, Fn: &Closure{Builtin: f, Name: name}}
}

func arity(args []Value, n int) *Err {
	if len(args) != n {
		return goErr(EArity, "wrong number of arguments")
	}
	return nil
}

func ints2(name string, f func(a, b int) (Value, *Err)) Value {
	return B(name, func(in *Interp, a []Value) (Value, *Err) {
		if e := arity(a, 2); e != nil {
			return Nil, e
		}
		if a[0].K != KInt || a[1].K != KInt {
			return Nil, goErr(EDomain, name+": non-integer")
		}
		return f(a[0].I, a[1].I)
	})
}

// BaseScope returns a scope with the model builtins used by the generators.
func BaseScope() *Scope {
	s := NewScope(nil)
	s.Set("+", ints2("+", func(a, b int) (Value, *Err) { return Int(a + b), nil }))
	s.Set("-", ints2("-", func(a, b int) (Value, *Err) { return Int(a - b), nil }))
	s.Set("*", ints2("*", func(a, b int) (Value, *Err) { return Int(a * b), nil }))
	s.Set("<", ints2("<", func(a, b int) (Value, *Err) { return Bool(a < b), nil }))
	s.Set(">", ints2(">", func(a, b int) (Value, *Err) { return Bool(a > b), nil }))
	s.Set("=", B("=", func(in *Interp, a []Value) (Value, *Err) {
		if e := arity(a, 2); e != nil {
			return Nil, e
		}
		if hasOpaque(a[0]) || hasOpaque(a[1]) {
			in.Unspec = true
		}
		return Bool(Equal(a[0], a[1])), nil
	}))
	s.Set("list", B("list", func(in *Interp, a []Value) (Value, *Err) { return List(append([]Value{}, a...)...), nil }))
	s.Set("vector", B("vector", func(in *Interp, a []Value) (Value, *Err) { return Vec(append([]Value{}, a...)...), nil }))
	s.Set("count", B("count", func(in *Interp, a []Value) (Value, *Err) {
		if e := arity(a, 1); e != nil {
			return Nil, e
		}
		switch a[0].K {
		case KNil:
			return Int(0), nil
		case KList, KVec:
			return Int(len(a[0].Elems)), nil
		case KMap, KSet:
			return Int(len(a[0].Ents)), nil
		}
		return Nil, goErr(EDomain, "count")
	}))
	s.Set("first", B("first", func(in *Interp, a []Value) (Value, *Err) {
		if e := arity(a, 1); e != nil {
			return Nil, e
		}
		if a[0].K == KNil {
			return Nil, nil
		}
		el, ok := seqElems(a[0])
		if !ok {
			return Nil, goErr(EDomain, "first")
		}
		if len(el) == 0 {
			return Nil, nil
		}
		return el[0], nil
	}))
	s.Set("rest", B("rest", func(in *Interp, a []Value) (Value, *Err) {
		if e := arity(a, 1); e != nil {
			return Nil, e
		}
		if a[0].K == KNil {
			return List(), nil
		}
		el, ok := seqElems(a[0])
		if !ok {
			return Nil, goErr(EDomain, "rest")
		}
		if len(el) == 0 {
			return List(), nil
		}
		return List(append([]Value{}, el[1:]...)...), nil
	}))
	s.Set("cons", B("cons", func(in *Interp, a []Value) (Value, *Err) {
		if e := arity(a, 2); e != nil {
			return Nil, e
		}
		el, ok := seqElems(a[1])
		if !ok {
			return Nil, goErr(EDomain, "cons")
		}
		return List(append([]Value{a[0]}, el...)...), nil
	}))
	// (apply f args): only the two-argument form with a list or vector of arguments is modelled
	s.Set("apply", B("apply", func(in *Interp, a []Value) (Value, *Err) {
		if len(a) != 2 || (a[1].K != KList && a[1].K != KVec && a[1].K != KNil) {
			in.Unspec = true
			return Nil, goErr(EDomain, "apply")
		}
		return in.Apply(a[0], a[1].Elems)
	}))
	s.Set("throw", B("throw", func(in *Interp, a []Value) (Value, *Err) {
		if e := arity(a, 1); e != nil {
			return Nil, e
		}
		if a[0].K == KOpaque && a[0].S == "go-error" {
			return Nil, &Err{Class: EGo, Payload: a[0], Sentinel: "boom"}
		}
		return Nil, thrown(a[0])
	}))
	s.Set("t!", B("t!", func(in *Interp, a []Value) (Value, *Err) {
		if e := arity(a, 1); e != nil {
			return Nil, e
		}
		in.Trace = append(in.Trace, a[0])
		return a[0], nil
	}))
	s.Set("boom!", B("boom!", func(in *Interp, a []Value) (Value, *Err) {
		if e := arity(a, 0); e != nil {
			return Nil, e
		}
		return Nil, &Err{Class: EGo, Payload: Opaque("go-error"), Msg: "boom", Sentinel: "boom"}
	}))
	s.Set("boomw!", B("boomw!", func(in *Interp, a []Value) (Value, *Err) {
		if e := arity(a, 0); e != nil {
			return Nil, e
		}
		return Nil, &Err{Class: EGo, Payload: Opaque("go-error"), Msg: "boom", Sentinel: "boom"}
	}))
	s.Set("rawpan!", B("rawpan!", func(in *Interp, a []Value) (Value, *Err) {
		return Nil, &Err{Class: EGo, Payload: Opaque("go-error"), Msg: "pan", Sentinel: "pan"}
	}))
	s.Set("pan!", B("pan!", func(in *Interp, a []Value) (Value, *Err) {
		if e := arity(a, 0); e != nil {
			return Nil, e
		}
		return Nil, &Err{Class: EGo, Payload: Opaque("go-error"), Msg: "pan", Sentinel: "pan"}
	}))
	s.Set("sentinel", B("sentinel", func(in *Interp, a []Value) (Value, *Err) {
		if e := arity(a, 0); e != nil {
			return Nil, e
		}
		return Opaque("go-error"), nil
	}))
	s.Set("pans!", B("pans!", func(in *Interp, a []Value) (Value, *Err) {
		// a Go builtin panicking with a non-error value: lib/call delivers the value itself
		if e := arity(a, 0); e != nil {
			return Nil, e
		}
		return Nil, thrown(Str("pans"))
	}))
	return s
}

func hasOpaque(v Value) bool {
	switch v.K {
	case KFn, KOpaque:
		return true
	case KList, KVec:
		for _, e := range v.Elems {
			if hasOpaque(e) {
				return true
			}
		}
	case KMap:
		for _, e := range v.Ents {
			if hasOpaque(e.V) {
				return true
			}
		}
	}
	return false
}

// OwnNames lists the names bound directly in this scope.
func (s *Scope) OwnNames() []string {
	var out []string
	for k := range s.vars {
		out = append(out, k)
	}
	return out
}
