package model

// Abstract model of the sequence / hash-map / set builtins (DESIGN Appendix B).
// Three-valued: an exact value, "must be an error", or unspecified.

type SpecKind int

const (
	SVal      SpecKind = iota // exactly this value (kind included)
	SAnyOrder                 // a list/vector with exactly these elements in any order
	SErr                      // must be an error (not a value)
	SErrOrNil                 // an error or nil (but never another value)
	SU                        // unspecified: any non-panicking outcome
)

type Spec struct {
	Kind SpecKind
	Val  Value
}

func sv(v Value) Spec { return Spec{SVal, v} }

var (
	serr = Spec{Kind: SErr}
	su   = Spec{Kind: SU}
)

// IncFn is the one function value of the alphabet: (fn [x] (+ x 1)).
func isFn(v Value) bool { return v.K == KFn }

func applyInc(args []Value) (Value, bool) {
	if len(args) != 1 || args[0].K != KInt {
		return Nil, false
	}
	return Int(args[0].I + 1), true
}

// applyFn applies one of the alphabet's two function values: S == "rest" is
// (fn [& xs] xs), anything else is (fn [x] (+ x 1)).
func applyFn(f Value, args []Value) (Value, bool) {
	if f.S == "rest" {
		return List(cp(args)...), true
	}
	return applyInc(args)
}

func allKeys(vs []Value) ([]Key, bool) {
	out := make([]Key, len(vs))
	for i, v := range vs {
		k, ok := v.AsKey()
		if !ok {
			return nil, false
		}
		out[i] = k
	}
	return out, true
}

func mapAssoc(m Value, k Key, v Value) Value {
	ents := []MapEntry{}
	for _, e := range m.Ents {
		if e.K != k {
			ents = append(ents, e)
		}
	}
	ents = append(ents, MapEntry{k, v})
	return MapOf(ents...)
}

func mapDissoc(m Value, k Key) Value {
	ents := []MapEntry{}
	for _, e := range m.Ents {
		if e.K != k {
			ents = append(ents, e)
		}
	}
	if m.K == KSet {
		ks := []Key{}
		for _, e := range ents {
			ks = append(ks, e.K)
		}
		return SetOf(ks...)
	}
	return MapOf(ents...)
}

func setKeys(s Value) []Key {
	ks := make([]Key, len(s.Ents))
	for i, e := range s.Ents {
		ks[i] = e.K
	}
	return ks
}

func clampTake(n, l int) int {
	if n < 0 {
		return 0
	}
	if n > l {
		return l
	}
	return n
}

func cp(vs []Value) []Value { return append([]Value{}, vs...) }

func isColl(v Value) bool { return v.K == KList || v.K == KVec || v.K == KMap || v.K == KSet }

// getSpec: (get c k)
func getSpec(c, k Value) Spec {
	switch c.K {
	case KNil:
		return sv(Nil)
	case KMap:
		key, ok := k.AsKey()
		if !ok {
			return su
		}
		v, _ := c.MapGet(key)
		return sv(v)
	case KSet:
		key, ok := k.AsKey()
		if !ok {
			return su
		}
		if _, ok := c.MapGet(key); ok {
			return sv(k)
		}
		return sv(Nil)
	case KList, KVec:
		if k.K != KInt {
			return su
		}
		if k.I >= 0 && k.I < len(c.Elems) {
			return sv(c.Elems[k.I])
		}
		return Spec{Kind: SErrOrNil}
	}
	return su
}

// assocSpec: (assoc c k v ...) for the specified part of the domain
func assocSpec(a []Value) Spec {
	c := a[0]
	switch c.K {
	case KMap:
		if len(a) < 3 || len(a)%2 != 1 {
			return serr
		}
		m := c
		for i := 1; i < len(a); i += 2 {
			k, ok := a[i].AsKey()
			if !ok {
				return serr
			}
			m = mapAssoc(m, k, a[i+1])
		}
		return sv(m)
	case KVec:
		if len(a) < 3 || len(a)%2 != 1 {
			return serr
		}
		el := cp(c.Elems)
		for i := 1; i < len(a); i += 2 {
			if a[i].K != KInt || a[i].I < 0 || a[i].I >= len(el) {
				return serr
			}
			el[a[i].I] = a[i+1]
		}
		return sv(Vec(el...))
	case KSet:
		if len(a) < 2 {
			return su
		}
		ks, ok := allKeys(a[1:])
		if !ok {
			return serr
		}
		return sv(SetOf(append(setKeys(c), ks...)...))
	}
	return serr
}

// Builtins maps a builtin name to its model. Arities lists the argument counts generated.
type BuiltinModel struct {
	Name    string
	Arities []int
	F       func(a []Value) Spec
}

func pred(name string, f func(Value) bool) BuiltinModel {
	return BuiltinModel{name, []int{1}, func(a []Value) Spec { return sv(Bool(f(a[0]))) }}
}

func CollectionBuiltins() []BuiltinModel {
	seqN := func(name string, f func(n int, el []Value) Value, nilVal Value) BuiltinModel {
		return BuiltinModel{name, []int{2}, func(a []Value) Spec {
			if a[0].K != KInt {
				return serr
			}
			switch a[1].K {
			case KNil:
				return sv(nilVal)
			case KList, KVec:
				return sv(f(a[0].I, a[1].Elems))
			}
			return serr
		}}
	}
	return []BuiltinModel{
		{"list", []int{0, 1, 2, 3}, func(a []Value) Spec { return sv(List(cp(a)...)) }},
		{"vector", []int{0, 1, 2, 3}, func(a []Value) Spec { return sv(Vec(cp(a)...)) }},
		{"hash-set", []int{0, 1, 2, 3}, func(a []Value) Spec {
			ks, ok := allKeys(a)
			if !ok {
				return serr
			}
			return sv(SetOf(ks...))
		}},
		{"cons", []int{2}, func(a []Value) Spec {
			switch a[1].K {
			case KList, KVec:
				return sv(List(append([]Value{a[0]}, a[1].Elems...)...))
			case KNil:
				return su
			}
			return serr
		}},
		{"concat", []int{0, 1, 2, 3}, func(a []Value) Spec {
			out := []Value{}
			for _, s := range a {
				switch s.K {
				case KList, KVec:
					out = append(out, s.Elems...)
				case KNil:
					return su
				default:
					return serr
				}
			}
			return sv(List(out...))
		}},
		{"vec", []int{1}, func(a []Value) Spec {
			switch a[0].K {
			case KList, KVec:
				return sv(Vec(cp(a[0].Elems)...))
			case KSet:
				el := []Value{}
				for _, k := range setKeys(a[0]) {
					el = append(el, k.Value())
				}
				return Spec{SAnyOrder, Vec(el...)}
			}
			return su
		}},
		{"nth", []int{2}, func(a []Value) Spec {
			if a[0].K == KNil {
				return su
			}
			if !a[0].IsSeq() || a[1].K != KInt {
				return serr
			}
			if a[1].I < 0 || a[1].I >= len(a[0].Elems) {
				return serr
			}
			return sv(a[0].Elems[a[1].I])
		}},
		{"first", []int{1}, func(a []Value) Spec {
			switch a[0].K {
			case KNil:
				return sv(Nil)
			case KList, KVec:
				if len(a[0].Elems) == 0 {
					return sv(Nil)
				}
				return sv(a[0].Elems[0])
			}
			return su
		}},
		{"rest", []int{1}, func(a []Value) Spec {
			switch a[0].K {
			case KNil:
				return sv(List())
			case KList, KVec:
				if len(a[0].Elems) == 0 {
					return sv(List())
				}
				return sv(List(cp(a[0].Elems[1:])...))
			}
			return su
		}},
		{"count", []int{1}, func(a []Value) Spec {
			switch a[0].K {
			case KNil:
				return sv(Int(0))
			case KList, KVec:
				return sv(Int(len(a[0].Elems)))
			case KMap, KSet:
				return sv(Int(len(a[0].Ents)))
			}
			return su
		}},
		{"empty?", []int{1}, func(a []Value) Spec {
			switch a[0].K {
			case KNil:
				return sv(Bool(true))
			case KList, KVec:
				return sv(Bool(len(a[0].Elems) == 0))
			case KMap, KSet:
				return sv(Bool(len(a[0].Ents) == 0))
			case KStr:
				return su
			}
			return serr
		}},
		{"conj", []int{2, 3}, func(a []Value) Spec {
			c := a[0]
			switch c.K {
			case KList:
				el := cp(c.Elems)
				for _, x := range a[1:] {
					el = append([]Value{x}, el...)
				}
				return sv(List(el...))
			case KVec:
				return sv(Vec(append(cp(c.Elems), a[1:]...)...))
			case KMap:
				if len(a)%2 != 1 {
					return serr
				}
				m := c
				for i := 1; i < len(a); i += 2 {
					k, ok := a[i].AsKey()
					if !ok {
						return serr
					}
					m = mapAssoc(m, k, a[i+1])
				}
				return sv(m)
			case KSet:
				ks, ok := allKeys(a[1:])
				if !ok {
					return serr
				}
				return sv(SetOf(append(setKeys(c), ks...)...))
			case KNil:
				return su
			}
			return serr
		}},
		{"seq", []int{1}, func(a []Value) Spec {
			switch a[0].K {
			case KNil:
				return sv(Nil)
			case KList:
				if len(a[0].Elems) == 0 {
					return sv(Nil)
				}
				return sv(a[0])
			case KVec:
				if len(a[0].Elems) == 0 {
					return sv(Nil)
				}
				return sv(List(cp(a[0].Elems)...))
			case KStr:
				if a[0].S == "" {
					return sv(Nil)
				}
				el := []Value{}
				for _, r := range a[0].S {
					el = append(el, Str(string(r)))
				}
				return sv(List(el...))
			case KSet:
				el := []Value{}
				for _, k := range setKeys(a[0]) {
					el = append(el, k.Value())
				}
				return Spec{SAnyOrder, List(el...)}
			}
			return su
		}},
		{"map", []int{2}, func(a []Value) Spec {
			if !a[1].IsSeq() || !isFn(a[0]) {
				return su
			}
			out := []Value{}
			for _, e := range a[1].Elems {
				r, ok := applyFn(a[0], []Value{e})
				if !ok {
					return serr
				}
				out = append(out, r)
			}
			return sv(List(out...))
		}},
		{"apply", []int{2, 3}, func(a []Value) Spec {
			last := a[len(a)-1]
			if !last.IsSeq() {
				return serr
			}
			if !isFn(a[0]) {
				return serr
			}
			args := append(cp(a[1:len(a)-1]), last.Elems...)
			r, ok := applyFn(a[0], args)
			if !ok {
				return serr
			}
			return sv(r)
		}},
		seqN("take", func(n int, el []Value) Value { return List(cp(el[:clampTake(n, len(el))])...) }, List()),
		seqN("take-last", func(n int, el []Value) Value {
			k := clampTake(n, len(el))
			if k == 0 {
				return Nil
			}
			return List(cp(el[len(el)-k:])...)
		}, Nil),
		seqN("drop", func(n int, el []Value) Value { return List(cp(el[clampTake(n, len(el)):])...) }, List()),
		seqN("drop-last", func(n int, el []Value) Value { return List(cp(el[:len(el)-clampTake(n, len(el))])...) }, List()),
		{"subvec", []int{2, 3}, func(a []Value) Spec {
			if a[0].K != KVec || a[1].K != KInt {
				return serr
			}
			from, to := a[1].I, len(a[0].Elems)
			if len(a) == 3 {
				if a[2].K != KInt {
					return serr
				}
				to = a[2].I
			}
			if from < 0 || to > len(a[0].Elems) || from > to {
				return serr
			}
			return sv(Vec(cp(a[0].Elems[from:to])...))
		}},
		{"range", []int{2}, func(a []Value) Spec {
			if a[0].K != KInt || a[1].K != KInt {
				return serr
			}
			el := []Value{}
			for i := a[0].I; i < a[1].I; i++ {
				el = append(el, Int(i))
			}
			return sv(Vec(el...))
		}},
		{"hash-map", []int{0, 1, 2, 3}, func(a []Value) Spec {
			if len(a)%2 != 0 {
				return serr
			}
			m := MapOf()
			for i := 0; i < len(a); i += 2 {
				k, ok := a[i].AsKey()
				if !ok {
					return serr
				}
				m = mapAssoc(m, k, a[i+1])
			}
			return sv(m)
		}},
		{"assoc", []int{2, 3}, assocSpec},
		{"dissoc", []int{2, 3}, func(a []Value) Spec {
			if a[0].K != KMap && a[0].K != KSet {
				return serr
			}
			ks, ok := allKeys(a[1:])
			if !ok {
				return serr
			}
			m := a[0]
			for _, k := range ks {
				m = mapDissoc(m, k)
			}
			return sv(m)
		}},
		{"get", []int{2}, func(a []Value) Spec { return getSpec(a[0], a[1]) }},
		{"contains?", []int{2}, func(a []Value) Spec {
			if a[0].K == KNil {
				if _, ok := a[1].AsKey(); ok {
					return sv(Bool(false))
				}
				return su
			}
			if a[0].K != KMap && a[0].K != KSet {
				return serr
			}
			k, ok := a[1].AsKey()
			if !ok {
				return serr
			}
			_, found := a[0].MapGet(k)
			return sv(Bool(found))
		}},
		{"keys", []int{1}, func(a []Value) Spec {
			if a[0].K != KMap {
				return su
			}
			el := []Value{}
			for _, e := range a[0].Ents {
				el = append(el, e.K.Value())
			}
			return Spec{SAnyOrder, List(el...)}
		}},
		{"vals", []int{1}, func(a []Value) Spec {
			if a[0].K != KMap {
				return su
			}
			el := []Value{}
			for _, e := range a[0].Ents {
				el = append(el, e.V)
			}
			return Spec{SAnyOrder, List(el...)}
		}},
		{"merge", []int{2}, func(a []Value) Spec {
			if a[0].K == KNil && a[1].K == KNil {
				return sv(Nil)
			}
			m := MapOf()
			for _, x := range a {
				switch x.K {
				case KNil:
				case KMap:
					for _, e := range x.Ents {
						m = mapAssoc(m, e.K, e.V)
					}
				default:
					return serr
				}
			}
			return sv(m)
		}},
		{"rename-keys", []int{2}, func(a []Value) Spec {
			if a[0].K != KMap || a[1].K != KMap {
				return serr
			}
			seen := map[Key]bool{}
			m := MapOf()
			for _, e := range a[0].Ents {
				k := e.K
				if nk, ok := a[1].MapGet(e.K); ok {
					k2, isKey := nk.AsKey()
					if !isKey {
						return serr
					}
					k = k2
				}
				if seen[k] {
					return su // two keys collide after renaming: which one wins is unspecified
				}
				seen[k] = true
				m = mapAssoc(m, k, e.V)
			}
			return sv(m)
		}},
		{"get-in", []int{2}, func(a []Value) Spec {
			if a[1].K != KVec {
				if a[0].K == KNil {
					return su
				}
				return serr
			}
			cur := a[0]
			if cur.K == KNil {
				return sv(Nil)
			}
			fromMap := false
			for _, k := range a[1].Elems {
				if _, ok := k.AsKey(); !ok && cur.K == KNil {
					return su // a path element that is no key at all (nil, a collection): outside the documented domain
				}
				switch cur.K {
				case KMap:
					key, ok := k.AsKey()
					if !ok {
						return su
					}
					cur, _ = cur.MapGet(key)
					fromMap = true
				case KVec, KList:
					if k.K != KInt || k.I < 0 || k.I >= len(cur.Elems) {
						return su
					}
					cur = cur.Elems[k.I]
					fromMap = false
				case KNil:
					if !fromMap {
						return su // nil stored in a vector: what lies "below" it is not documented
					}
					for _, k2 := range a[1].Elems {
						if _, ok := k2.AsKey(); !ok {
							return su // a later path element is no key at all
						}
					}
					return sv(Nil) // a missing key (or nil value) of a map earlier on the path
				default:
					return su
				}
			}
			return sv(cur)
		}},
		{"assoc-in", []int{3}, func(a []Value) Spec {
			if a[1].K != KVec {
				return serr
			}
			return assocIn(a[0], a[1].Elems, func(Value) (Value, bool) { return a[2], true })
		}},
		{"update", []int{3}, func(a []Value) Spec {
			if a[0].K == KNil {
				return sv(Nil)
			}
			if !isFn(a[2]) {
				return su
			}
			return assocIn(a[0], []Value{a[1]}, func(old Value) (Value, bool) { return applyFn(a[2], []Value{old}) })
		}},
		{"update-in", []int{3}, func(a []Value) Spec {
			if a[1].K != KVec {
				return serr
			}
			if a[0].K == KNil {
				return sv(Nil)
			}
			if !isFn(a[2]) {
				return su
			}
			return assocIn(a[0], a[1].Elems, func(old Value) (Value, bool) { return applyFn(a[2], []Value{old}) })
		}},
		{"set", []int{1}, func(a []Value) Spec {
			switch a[0].K {
			case KNil:
				return sv(SetOf())
			case KList, KVec:
				ks, ok := allKeys(a[0].Elems)
				if !ok {
					return serr
				}
				return sv(SetOf(ks...))
			}
			return serr
		}},
		pred("nil?", func(v Value) bool { return v.K == KNil }),
		pred("true?", func(v Value) bool { return v.K == KBool && v.B }),
		pred("false?", func(v Value) bool { return v.K == KBool && !v.B }),
		pred("symbol?", func(v Value) bool { return v.K == KSym }),
		pred("keyword?", func(v Value) bool { return v.K == KKw }),
		pred("string?", func(v Value) bool { return v.K == KStr }),
		pred("number?", func(v Value) bool { return v.K == KInt }),
		pred("fn?", func(v Value) bool { return v.K == KFn }),
		pred("list?", func(v Value) bool { return v.K == KList }),
		pred("vector?", func(v Value) bool { return v.K == KVec }),
		pred("map?", func(v Value) bool { return v.K == KMap }),
		pred("set?", func(v Value) bool { return v.K == KSet }),
		pred("sequential?", func(v Value) bool { return v.IsSeq() }),
	}
}

// assocIn models assoc-in / update / update-in on the specified part of the domain:
// maps with string/keyword keys (missing keys create nested maps), vectors with in-range
// integer indexes; an empty path returns the collection unchanged.
func assocIn(c Value, path []Value, f func(old Value) (Value, bool)) Spec {
	if len(path) == 0 {
		return sv(c)
	}
	k := path[0]
	switch c.K {
	case KMap:
		key, ok := k.AsKey()
		if !ok {
			return serr
		}
		old, present := c.MapGet(key)
		if len(path) == 1 {
			nv, ok := f(old)
			if !ok {
				return serr
			}
			return sv(mapAssoc(c, key, nv))
		}
		if !present || old.K == KNil {
			old = MapOf()
		}
		inner := assocIn(old, path[1:], f)
		if inner.Kind != SVal {
			return inner
		}
		return sv(mapAssoc(c, key, inner.Val))
	case KVec:
		if k.K != KInt || k.I < 0 || k.I >= len(c.Elems) {
			return serr
		}
		old := c.Elems[k.I]
		el := cp(c.Elems)
		if len(path) == 1 {
			nv, ok := f(old)
			if !ok {
				return serr
			}
			el[k.I] = nv
			return sv(Vec(el...))
		}
		if old.K == KNil {
			return su
		}
		inner := assocIn(old, path[1:], f)
		if inner.Kind != SVal {
			return inner
		}
		el[k.I] = inner.Val
		return sv(Vec(el...))
	case KSet:
		return su
	}
	return serr
}
