// Package model holds the reference models. They are deliberately boring and do
// not use types.Equal_Q, printer, reader or EVAL of the implementation.
package model

import (
	"fmt"
	"sort"
	"strconv"
	"strings"

	"github.com/jig/lisp/types"
)

type Kind int

const (
	KNil Kind = iota
	KBool
	KInt
	KStr
	KKw
	KSym
	KList
	KVec
	KMap
	KSet
	KFn     // closure / builtin / macro (model side: Fn set; impl side: opaque)
	KOpaque // anything else (go errors, atoms, floats...), S = kind name
)

// Key is a map/set key: a string or a keyword.
type Key struct {
	Kw bool
	S  string
}

func (k Key) less(o Key) bool {
	if k.Kw != o.Kw {
		return !k.Kw
	}
	return k.S < o.S
}

func (k Key) Value() Value {
	if k.Kw {
		return Kw(k.S)
	}
	return Str(k.S)
}

type MapEntry struct {
	K Key
	V Value
}

// Value is the model's data value.
type Value struct {
	K     Kind
	B     bool
	I     int
	S     string
	Elems []Value    // list / vector
	Ents  []MapEntry // map (sorted by key), set (V unused)
	Fn    *Closure
}

var Nil = Value{K: KNil}

func Bool(b bool) Value        { return Value{K: KBool, B: b} }
func Int(i int) Value          { return Value{K: KInt, I: i} }
func Str(s string) Value       { return Value{K: KStr, S: s} }
func Kw(s string) Value        { return Value{K: KKw, S: s} }
func Sym(s string) Value       { return Value{K: KSym, S: s} }
func List(e ...Value) Value    { return Value{K: KList, Elems: e} }
func Vec(e ...Value) Value     { return Value{K: KVec, Elems: e} }
func Opaque(kind string) Value { return Value{K: KOpaque, S: kind} }

// MapOf builds a map from entries; later duplicates win.
func MapOf(ents ...MapEntry) Value {
	m := map[Key]Value{}
	for _, e := range ents {
		m[e.K] = e.V
	}
	out := make([]MapEntry, 0, len(m))
	for k, v := range m {
		out = append(out, MapEntry{k, v})
	}
	sort.Slice(out, func(i, j int) bool { return out[i].K.less(out[j].K) })
	return Value{K: KMap, Ents: out}
}

func SetOf(keys ...Key) Value {
	m := map[Key]bool{}
	for _, k := range keys {
		m[k] = true
	}
	out := make([]MapEntry, 0, len(m))
	for k := range m {
		out = append(out, MapEntry{K: k})
	}
	sort.Slice(out, func(i, j int) bool { return out[i].K.less(out[j].K) })
	return Value{K: KSet, Ents: out}
}

func (v Value) IsSeq() bool { return v.K == KList || v.K == KVec }

func (v Value) Truthy() bool { return !(v.K == KNil || (v.K == KBool && !v.B)) }

// MapGet looks a key up in a map/set value.
func (v Value) MapGet(k Key) (Value, bool) {
	for _, e := range v.Ents {
		if e.K == k {
			return e.V, true
		}
	}
	return Nil, false
}

// AsKey converts a Str/Kw value to a Key.
func (v Value) AsKey() (Key, bool) {
	switch v.K {
	case KStr:
		return Key{false, v.S}, true
	case KKw:
		return Key{true, v.S}, true
	}
	return Key{}, false
}

const kwPrefix = "ʞ"

// FromImpl converts an implementation value to the model ADT.
func FromImpl(x types.MalType) Value { return fromImpl(x, 0) }

// maxDepth bounds the conversion: a deeper (in practice: cyclic) implementation value
// becomes an opaque marker instead of overflowing the stack.
const maxDepth = 64

func fromImpl(x types.MalType, depth int) Value {
	if depth > maxDepth {
		return Opaque("CYCLIC-OR-TOO-DEEP")
	}
	switch t := x.(type) {
	case nil:
		return Nil
	case bool:
		return Bool(t)
	case int:
		return Int(t)
	case string:
		if strings.HasPrefix(t, kwPrefix) {
			return Kw(t[len(kwPrefix):])
		}
		return Str(t)
	case types.Symbol:
		return Sym(t.Val)
	case types.List:
		out := make([]Value, len(t.Val))
		for i, e := range t.Val {
			out[i] = fromImpl(e, depth+1)
		}
		return Value{K: KList, Elems: out}
	case types.Vector:
		out := make([]Value, len(t.Val))
		for i, e := range t.Val {
			out[i] = fromImpl(e, depth+1)
		}
		return Value{K: KVec, Elems: out}
	case types.HashMap:
		ents := make([]MapEntry, 0, len(t.Val))
		for k, v := range t.Val {
			ents = append(ents, MapEntry{implKey(k), fromImpl(v, depth+1)})
		}
		sort.Slice(ents, func(i, j int) bool { return ents[i].K.less(ents[j].K) })
		return Value{K: KMap, Ents: ents}
	case types.Set:
		ents := make([]MapEntry, 0, len(t.Val))
		for k := range t.Val {
			ents = append(ents, MapEntry{K: implKey(k)})
		}
		sort.Slice(ents, func(i, j int) bool { return ents[i].K.less(ents[j].K) })
		return Value{K: KSet, Ents: ents}
	case types.MalFunc, types.Func:
		return Value{K: KFn}
	case error:
		return Opaque("go-error")
	default:
		return Opaque(fmt.Sprintf("%T", x))
	}
}

func implKey(k string) Key {
	if strings.HasPrefix(k, kwPrefix) {
		return Key{true, k[len(kwPrefix):]}
	}
	return Key{false, k}
}

func (k Key) Impl() string {
	if k.Kw {
		return kwPrefix + k.S
	}
	return k.S
}

// ToImpl builds the implementation value (no cursors). Fn/Opaque are not convertible.
func ToImpl(v Value) types.MalType {
	if v.K == KOpaque && v.S == "float32" {
		return float32(1.5)
	}
	switch v.K {
	case KNil:
		return nil
	case KBool:
		return v.B
	case KInt:
		return v.I
	case KStr:
		return v.S
	case KKw:
		return kwPrefix + v.S
	case KSym:
		return types.Symbol{Val: v.S}
	case KList:
		out := make([]types.MalType, len(v.Elems))
		for i, e := range v.Elems {
			out[i] = ToImpl(e)
		}
		return types.List{Val: out}
	case KVec:
		out := make([]types.MalType, len(v.Elems))
		for i, e := range v.Elems {
			out[i] = ToImpl(e)
		}
		return types.Vector{Val: out}
	case KMap:
		m := map[string]types.MalType{}
		for _, e := range v.Ents {
			m[e.K.Impl()] = ToImpl(e.V)
		}
		return types.HashMap{Val: m}
	case KSet:
		m := map[string]struct{}{}
		for _, e := range v.Ents {
			m[e.K.Impl()] = struct{}{}
		}
		return types.Set{Val: m}
	}
	panic("model.ToImpl: not a data value: " + v.String())
}

// Equal is structural equality; a list and a vector with pairwise equal elements are equal.
func Equal(a, b Value) bool {
	if a.IsSeq() && b.IsSeq() {
		if len(a.Elems) != len(b.Elems) {
			return false
		}
		for i := range a.Elems {
			if !Equal(a.Elems[i], b.Elems[i]) {
				return false
			}
		}
		return true
	}
	if a.K != b.K {
		return false
	}
	switch a.K {
	case KNil:
		return true
	case KBool:
		return a.B == b.B
	case KInt:
		return a.I == b.I
	case KStr, KKw, KSym:
		return a.S == b.S
	case KMap:
		if len(a.Ents) != len(b.Ents) {
			return false
		}
		for i := range a.Ents {
			if a.Ents[i].K != b.Ents[i].K || !Equal(a.Ents[i].V, b.Ents[i].V) {
				return false
			}
		}
		return true
	case KSet:
		if len(a.Ents) != len(b.Ents) {
			return false
		}
		for i := range a.Ents {
			if a.Ents[i].K != b.Ents[i].K {
				return false
			}
		}
		return true
	case KFn:
		return true // closures are not compared
	case KOpaque:
		return a.S == b.S
	}
	return false
}

// Identical is Equal but also distinguishes list from vector at every level.
func Identical(a, b Value) bool {
	return a.String() == b.String()
}

// String is a canonical, unambiguous rendering (not lisp syntax).
func (v Value) String() string {
	var sb strings.Builder
	v.write(&sb)
	return sb.String()
}

func (v Value) write(sb *strings.Builder) {
	switch v.K {
	case KNil:
		sb.WriteString("nil")
	case KBool:
		sb.WriteString(strconv.FormatBool(v.B))
	case KInt:
		sb.WriteString(strconv.Itoa(v.I))
	case KStr:
		sb.WriteString(strconv.Quote(v.S))
	case KKw:
		sb.WriteString(":" + strconv.Quote(v.S))
	case KSym:
		sb.WriteString("'" + strconv.Quote(v.S))
	case KList, KVec:
		o, c := "(", ")"
		if v.K == KVec {
			o, c = "[", "]"
		}
		sb.WriteString(o)
		for i, e := range v.Elems {
			if i > 0 {
				sb.WriteByte(' ')
			}
			e.write(sb)
		}
		sb.WriteString(c)
	case KMap:
		sb.WriteString("{")
		for i, e := range v.Ents {
			if i > 0 {
				sb.WriteByte(' ')
			}
			e.K.Value().write(sb)
			sb.WriteByte(' ')
			e.V.write(sb)
		}
		sb.WriteString("}")
	case KSet:
		sb.WriteString("#{")
		for i, e := range v.Ents {
			if i > 0 {
				sb.WriteByte(' ')
			}
			e.K.Value().write(sb)
		}
		sb.WriteString("}")
	case KFn:
		sb.WriteString("<fn>")
	case KOpaque:
		sb.WriteString("<" + v.S + ">")
	}
}

// Lisp renders a data value as lisp source text (independent of the printer
// under test): strings always in quoted form with \\ \" \n escapes.
func (v Value) Lisp() string {
	var sb strings.Builder
	v.lisp(&sb)
	return sb.String()
}

func lispStr(s string) string {
	var sb strings.Builder
	sb.WriteByte('"')
	for _, r := range s {
		switch r {
		case '\\':
			sb.WriteString(`\\`)
		case '"':
			sb.WriteString(`\"`)
		case '\n':
			sb.WriteString(`\n`)
		default:
			sb.WriteRune(r)
		}
	}
	sb.WriteByte('"')
	return sb.String()
}

func (v Value) lisp(sb *strings.Builder) {
	switch v.K {
	case KNil:
		sb.WriteString("nil")
	case KBool:
		sb.WriteString(strconv.FormatBool(v.B))
	case KInt:
		sb.WriteString(strconv.Itoa(v.I))
	case KStr:
		sb.WriteString(lispStr(v.S))
	case KKw:
		sb.WriteString(":" + v.S)
	case KSym:
		sb.WriteString(v.S)
	case KList, KVec:
		o, c := "(", ")"
		if v.K == KVec {
			o, c = "[", "]"
		}
		sb.WriteString(o)
		for i, e := range v.Elems {
			if i > 0 {
				sb.WriteByte(' ')
			}
			e.lisp(sb)
		}
		sb.WriteString(c)
	case KMap:
		sb.WriteString("{")
		for i, e := range v.Ents {
			if i > 0 {
				sb.WriteByte(' ')
			}
			e.K.Value().lisp(sb)
			sb.WriteByte(' ')
			e.V.lisp(sb)
		}
		sb.WriteString("}")
	case KSet:
		sb.WriteString("#{")
		for i, e := range v.Ents {
			if i > 0 {
				sb.WriteByte(' ')
			}
			e.K.Value().lisp(sb)
		}
		sb.WriteString("}")
	case KOpaque:
		if v.S == "float32" {
			sb.WriteString("1.5") // the one float literal of the alphabets (the reader makes it a float32)
			return
		}
		sb.WriteString("<" + v.String() + ">")
	default:
		sb.WriteString("<" + v.String() + ">")
	}
}

// ToImplLoose is ToImpl for values that may contain functions / opaque parts
// (rendered as symbols), used only for printing reference results.
func ToImplLoose(v Value) types.MalType {
	switch v.K {
	case KFn:
		return types.Symbol{Val: "<fn>"}
	case KOpaque:
		return types.Symbol{Val: "<" + v.S + ">"}
	case KList:
		out := make([]types.MalType, len(v.Elems))
		for i, e := range v.Elems {
			out[i] = ToImplLoose(e)
		}
		return types.List{Val: out}
	case KVec:
		out := make([]types.MalType, len(v.Elems))
		for i, e := range v.Elems {
			out[i] = ToImplLoose(e)
		}
		return types.Vector{Val: out}
	case KMap:
		m := map[string]types.MalType{}
		for _, e := range v.Ents {
			m[e.K.Impl()] = ToImplLoose(e.V)
		}
		return types.HashMap{Val: m}
	}
	return ToImpl(v)
}
