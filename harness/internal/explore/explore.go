// Package explore is the stateless, deviation-bounded DFS over schedules of the
// controlled scheduler (vcore): run one execution following a prefix of choices and
// the default policy afterwards, check it, then branch on every later choice point
// whose alternative stays within the preemption budget.
package explore

import (
	"fmt"
	"os"
	"sort"
	"strings"
	"time"

	"github.com/jig/lisp/verifhook"
	"github.com/jig/lisp/zverif/vcore"
)

func init() {
	verifhook.PointFn = func(l string) {
		if s := vcore.Active(); s != nil {
			s.Point(l)
		}
	}
	verifhook.SpawnFn = func(name string) any {
		if s := vcore.Active(); s != nil {
			return s.Spawn(name)
		}
		return nil
	}
	verifhook.EnterFn = func(tok any) {
		if t, ok := tok.(*vcore.Thread); ok && t != nil {
			if s := vcore.Active(); s != nil {
				s.Enter(t)
			}
		}
	}
	verifhook.ExitFn = func(tok any) {
		if t, ok := tok.(*vcore.Thread); ok && t != nil {
			if s := vcore.Active(); s != nil {
				s.Exit(t)
			}
		}
	}
	verifhook.AwaitFn = func(pred func() bool, why string) {
		if s := vcore.Active(); s != nil {
			s.Await(pred, why)
		}
	}
}

// Scenario is one closed system: fresh state per execution, thread bodies, oracle.
type Scenario struct {
	Name string
	// Setup builds the per-execution state (runs in the scheduler's setup mode).
	Setup func() any
	// Threads returns the bodies of the managed threads.
	Threads func(state any) []func()
	// Check judges one completed execution ("" = fine). obs is a short rendering of what
	// was observed (for the distinct-outcome count).
	Check func(state any, s *vcore.Sched) (sig, detail, obs string)
	// DeadlockSig names a deadlock for the findings file.
	DeadlockSig func(state any, s *vcore.Sched) string
	// Idle is called when no thread is enabled; it may release legitimately blocked threads
	// (scenario teardown) and return true, or return false (then it is a deadlock).
	Idle func(state any, s *vcore.Sched) bool
	// BlockedOK says that the threads left blocked at the end are blocked legitimately
	// (e.g. a deref of a future that never completes); the execution is then judged by Check.
	BlockedOK   func(state any, s *vcore.Sched) bool
	VisibleEnv  bool
	VisibleAtom bool
	VisibleHook bool
	Reduction   bool
}

type Violation struct {
	Sig      string
	Detail   string
	Schedule []int
	Bound    int
}

type Result struct {
	Execs          int
	Outcomes       map[string]int
	Violations     []Violation
	Complete       bool // the DFS finished at BoundCompleted
	BoundCompleted int
	MaxPoints      int
	WithSwitch     int // executions with >= 1 context switch inside an operation
	Restarts       int
	Redraws        int // executions discarded because a random choice of the code did not match the schedule
	Internal       string
}

func (r *Result) addViolation(v Violation) {
	for _, x := range r.Violations {
		if x.Sig == v.Sig {
			return
		}
	}
	r.Violations = append(r.Violations, v)
}

func choicesOf(s *vcore.Sched) []int {
	c := make([]int, len(s.Points))
	for i, p := range s.Points {
		c[i] = p.Chosen
	}
	return c
}

// RunOnce executes the scenario once following prefix.
func RunOnce(sc *Scenario, prefix []int, red *vcore.Reduction) (*vcore.Sched, any) {
	s := vcore.New(prefix, red)
	s.VisibleClass = [3]bool{sc.VisibleEnv, sc.VisibleAtom, sc.VisibleHook}
	s.BeginSetup()
	st := sc.Setup()
	if sc.Idle != nil {
		s.IdleHook = func() bool { return sc.Idle(st, s) }
	}
	s.Run(sc.Threads(st)...)
	return s, st
}

// runConforming is RunOnce repeated while the code under test drew, at a random choice of
// its own (a Go select with several ready arms), another arm than the schedule asks for.
func runConforming(sc *Scenario, prefix []int, red *vcore.Reduction, res *Result) (*vcore.Sched, any) {
	for try := 0; ; try++ {
		s, st := RunOnce(sc, prefix, red)
		if !s.Misdrawn {
			return s, st
		}
		res.Redraws++
		if try >= 400 {
			s.Diverged = "the code's random choice never drew the arm asked for in 400 runs"
			return s, st
		}
	}
}

func judge(sc *Scenario, s *vcore.Sched, st any) (sig, detail, obs string) {
	switch {
	case s.Diverged != "":
		return "INTERNAL: " + s.Diverged, "", "diverged"
	case s.StepCap:
		return "", "", "step-cap"
	case s.Deadlock && sc.BlockedOK != nil && sc.BlockedOK(st, s):
		return sc.Check(st, s)
	case s.Deadlock:
		sg := "deadlock"
		if sc.DeadlockSig != nil {
			sg = sc.DeadlockSig(st, s)
		}
		return sg, "no thread enabled: " + strings.Join(s.Blocked, "; "), "deadlock"
	}
	return sc.Check(st, s)
}

// Explore runs the iterative context-bounded DFS for bounds 0..maxBound.
func Explore(sc *Scenario, maxBound, maxExecs int, deadline time.Time) *Result {
	res := &Result{Outcomes: map[string]int{}, BoundCompleted: -1}
	red := vcore.NewReduction(sc.Reduction)
	for bound := 0; bound <= maxBound; bound++ {
	restart:
		complete := true
		execsAtStart := res.Execs
		_ = execsAtStart
		var rec func(prefix []int) bool
		rec = func(prefix []int) bool {
			if res.Execs >= maxExecs || time.Now().After(deadline) {
				complete = false
				return false
			}
			s, st := runConforming(sc, prefix, red, res)
			res.Execs++
			if red.Grew {
				return false
			}
			if len(s.Points) > res.MaxPoints {
				res.MaxPoints = len(s.Points)
			}
			if s.Switches > 0 {
				res.WithSwitch++
			}
			sig, detail, obs := judge(sc, s, st)
			res.Outcomes[obs]++
			if strings.HasPrefix(sig, "INTERNAL") {
				res.Internal = sig
				return false
			}
			if sig != "" {
				full := choicesOf(s)
				// a failing schedule must fail again when replayed. The code under test may itself
				// choose at random (Go's select picks among ready cases), so a violation that depends on
				// such a choice reproduces only sometimes: it is accepted when one of up to 48 replays
				// shows the same signature; if none does, the failure is the harness's (internal error)
				reproduced := false
				last := ""
				for try := 0; try < 48 && !reproduced; try++ {
					s2, st2 := runConforming(sc, full, red, res)
					sig2, _, _ := judge(sc, s2, st2)
					res.Execs++
					last = sig2
					if os.Getenv("VERIF_DEBUG_REPLAY") != "" {
						fmt.Fprintf(os.Stderr, "REPLAY try=%d sig=%q misdrawn=%v diverged=%q\n  first : %s\n  replay: %s\n", try, sig2, s2.Misdrawn, s2.Diverged, RenderSchedule(s), RenderSchedule(s2))
					}
					reproduced = sig2 == sig
				}
				if !reproduced {
					res.Internal = fmt.Sprintf("INTERNAL: schedule %v does not reproduce: %q then %q", full, sig, last)
					return false
				}
				res.addViolation(Violation{Sig: sig, Detail: detail + "\nschedule: " + RenderSchedule(s), Schedule: full, Bound: bound})
			}
			choices := choicesOf(s)
			pre := 0
			for i := 0; i < len(s.Points); i++ {
				p := s.Points[i]
				if i >= len(prefix) {
					for alt := 1; alt < len(p.Enabled); alt++ {
						c := pre
						if p.CurEnabled && !p.Free {
							c++
						}
						if c > bound {
							continue
						}
						np := append(append([]int{}, choices[:i]...), alt)
						if !rec(np) {
							return false
						}
					}
				}
				if p.Chosen > 0 && p.CurEnabled && !p.Free {
					pre++
				}
			}
			return true
		}
		ok := rec(nil)
		if red.Grew {
			red.Grew = false
			res.Restarts++
			if res.Restarts > 50 {
				res.Internal = "INTERNAL: reduction sets do not converge"
				return res
			}
			goto restart
		}
		if res.Internal != "" {
			return res
		}
		if !ok || !complete {
			res.Complete = false
			return res
		}
		res.BoundCompleted = bound
		res.Complete = true
	}
	return res
}

// RenderSchedule prints the choice points of an execution.
func RenderSchedule(s *vcore.Sched) string {
	var parts []string
	for _, p := range s.Points {
		if p.Chosen == 0 && len(parts) > 40 {
			continue
		}
		mark := ""
		if p.Chosen > 0 && p.CurEnabled && !p.Free {
			mark = "!"
		}
		if strings.HasPrefix(p.Label, "choose:") {
			parts = append(parts, fmt.Sprintf("T%d@%s=%d", p.Cur, p.Label, p.Chosen))
			continue
		}
		parts = append(parts, fmt.Sprintf("T%d@%s->T%d%s", p.Cur, p.Label, p.Enabled[p.Chosen], mark))
	}
	if len(parts) > 60 {
		parts = append(parts[:60], "...")
	}
	return strings.Join(parts, " ")
}

// SortedKeys is a small helper for deterministic rendering.
func SortedKeys(m map[string]int) []string {
	var k []string
	for x := range m {
		k = append(k, x)
	}
	sort.Strings(k)
	return k
}
