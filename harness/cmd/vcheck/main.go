package main

import (
	"os"

	"verifharness/internal/vf"
	_ "verifharness/props"
)

func main() { os.Exit(vf.Main(os.Args[1:])) }
