#!/bin/bash
# usage: run.sh <property-id> [quick|thorough] [--replay file] ...
# Rebuilds the harness against /repo's current working tree (hooks on, overlay
# generated from the current files), then runs the check.
set -u
export GOFLAGS=-mod=mod GOPROXY=off GOSUMDB=off GOTOOLCHAIN=local
export VERIF_DIR="${VERIF_DIR:-$(cd "$(dirname "${BASH_SOURCE[0]}")" && pwd)}"
export VERIF_REPO="${VERIF_REPO:-/repo}"
cd "$VERIF_DIR" || exit 2
id="$1"; shift
tier="${VERIF_TIER:-quick}"
if [ "${1:-}" = "quick" ] || [ "${1:-}" = "thorough" ]; then tier="$1"; shift; fi
mkdir -p .work/bin .work/overlay evidence replays
"$VERIF_DIR/build.sh" >.work/build.log 2>&1
rc=$?
if [ $rc -ne 0 ]; then
  echo "INTERNAL: harness build failed (see $VERIF_DIR/.work/build.log)" >&2
  tail -30 .work/build.log >&2
  # A build failure of the harness against the current tree is not a property verdict.
  exit 2
fi
exec .work/bin/vcheck "$id" --tier "$tier" "$@"
