#!/bin/bash
# Offline setup after a fresh restore: warm the Go build cache for the harness.
set -u
export GOFLAGS=-mod=mod GOPROXY=off GOSUMDB=off GOTOOLCHAIN=local
cd /verif && mkdir -p .work/bin .work/overlay evidence replays
./build.sh || { echo "setup: harness build failed"; exit 1; }
if [ -x /verif/build_race.sh ]; then /verif/build_race.sh || echo "setup: race build failed (aux pass only)"; fi
echo setup ok
